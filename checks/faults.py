"""C14: fault containment and clean shutdown.

crash points x fault kinds x transports x schedules (x debug mode / cache off) on the real World.run()/shutdown():
  remote transport (shipped RemoteProxy + Channel over fake streams): connection closed / reset
  with a request outstanding, simulator dying while idle (after answering), remote handler raising;
  in-process transports (AsyncProxy, shipped LocalProxy): simulator raising.
Every execution is judged by TLC with the C14 clauses of the reference semantics (RefTrace);
the shutdown protocol itself is model-checked (MosaikFaults.tla).
"""
from __future__ import annotations

import random
import time

from harness import checklib, explore, sched_checks, scn as S, tlc

SCENARIOS = [
    {"sims": [{"sid": "Sa", "type": "time-based"}, {"sid": "Sb", "type": "hybrid"}, {"sid": "Sc", "type": "time-based"}],
     "conns": [{"src": "Sa", "dst": "Sb", "sa": "p", "da": "i"}, {"src": "Sb", "dst": "Sc", "sa": "p", "da": "i"}], "until": 3},
    {"sims": [{"sid": "Sa", "type": "hybrid"}, {"sid": "Sb", "type": "event-based"}, {"sid": "Sc", "type": "time-based"}],
     "conns": [{"src": "Sa", "dst": "Sb", "sa": "e", "da": "ti"}, {"src": "Sc", "dst": "Sa", "sa": "p", "da": "i"}], "until": 3},
    {"sims": [{"sid": "Sa", "type": "hybrid", "gpath": [1]}, {"sid": "Sb", "type": "hybrid", "gpath": [1]}, {"sid": "Sc", "type": "time-based"}],
     "conns": [{"src": "Sa", "dst": "Sb", "sa": "e", "da": "ti"}, {"src": "Sb", "dst": "Sa", "sa": "e", "da": "ti", "weak": True},
               {"src": "Sb", "dst": "Sc", "sa": "p", "da": "i", "shift": 1, "init": True}], "until": 2, "maxloop": 5},
    {"sims": [{"sid": "Sa", "type": "time-based"}, {"sid": "Sb", "type": "time-based"}],
     "conns": [{"src": "Sa", "dst": "Sb", "sa": "p", "da": "i"}, {"src": "Sb", "dst": "Sa", "sa": "p", "da": "i", "shift": 1, "init": True}], "until": 4},
]
EXCS = ["StopIteration", "KeyError", "ValueError", "StopAsyncIteration", "CancelledError", "TimeoutError"]
REMOTE_KINDS = ["eof", "reset", "eof_idle", "remote_exception"]


def cases(tier, seed):
    out = []
    rng = random.Random(f"c14|{seed}")
    kmax = 3 if tier == "quick" else 5
    for si, base in enumerate(SCENARIOS):
        for sim in base["sims"]:
            sid = sim["sid"]
            has_out = any(c["src"] == sid for c in base["conns"])
            points = [("setup_done", 1)] + [("step", k) for k in range(1, kmax + 1)] + ([("get_data", k) for k in range(1, kmax + 1)] if has_out else [])
            for req, k in points:
                for transport, kinds in (("remote", REMOTE_KINDS), ("async", ["raise"]), ("local", ["raise"])):
                    for kind in kinds:
                        if req == "setup_done" and kind == "remote_exception":
                            continue
                        for lazy in ((True, False) if tier == "thorough" else (True,)):
                            pols = [{"kind": "fifo"}] + ([] if transport == "local" else
                                                         [{"kind": "random", "early": e} for e in ((0.0, 0.5) if tier == "quick" else (0.0, 0.3, 0.7, 0.5))])
                            for pi, pol in enumerate(pols):
                                scn = dict(base, transport=transport, lazy=lazy)
                                plan = {"sid": sid, "req": req, "k": k, "kind": kind}
                                out.append({"id": [si, sid, req, k, kind, transport, lazy, pi], "scn": S.normalize(scn), "seed": rng.randrange(10**6),
                                            "behaviour": {"kind": "faultplan", "plan": plan, "p_event": 0.8, "ev_next": [None, 1]}, "policy": pol})
                                if pi == 0:
                                    # the same failure with the World's other options: debug mode (mosaik wraps step() there), cache off
                                    opt = dict(scn, debug=True) if (k + si) % 2 else dict(scn, debug=True, cache=False)
                                    out.append({"id": [si, sid, req, k, kind, transport, lazy, "debug"], "scn": S.normalize(opt), "seed": rng.randrange(10**6),
                                                "behaviour": {"kind": "faultplan", "plan": plan, "p_event": 0.8, "ev_next": [None, 1]}, "policy": pol})
                                    if kind == "raise":
                                        # an in-process simulator may raise ANY exception type (StopIteration from an exhausted iterator, KeyError, ...)
                                        for exc in EXCS:
                                            out.append({"id": [si, sid, req, k, kind, transport, lazy, exc], "scn": S.normalize(scn), "seed": rng.randrange(10**6),
                                                        "behaviour": {"kind": "faultplan", "plan": dict(plan, exc=exc), "p_event": 0.8, "ev_next": [None, 1]}, "policy": pol})
    # mixed transports: an in-process simulator whose finalize() takes 11 s of (virtual) wall-clock time, started BEFORE a remote one
    # and a third one - however long one simulator needs to finish, the others still receive stop exactly once
    for si in (0, 1, 3):
        base = SCENARIOS[si]
        sids = [x["sid"] for x in base["sims"]]
        tr = dict(zip(sids, ["local", "remote", "async"]))
        for fsid in sids:
            has_out = any(c["src"] == fsid for c in base["conns"])
            for req, k in [("step", 1), ("step", 2)] + ([("get_data", 1)] if has_out else []):
                kind = "eof" if tr[fsid] == "remote" else "raise"
                scn = dict(base, sims=[dict(x, transport=tr[x["sid"]], **({"slow_finalize": 11.0} if tr[x["sid"]] == "local" else {})) for x in base["sims"]])
                plan = {"sid": fsid, "req": req, "k": k, "kind": kind}
                for pi, pol in enumerate([{"kind": "fifo"}, {"kind": "random", "early": 0.5}]):
                    out.append({"id": [si, fsid, req, k, kind, "mixed_slow_finalize", pi], "scn": S.normalize(scn), "seed": rng.randrange(10**6),
                                "behaviour": {"kind": "faultplan", "plan": plan, "p_event": 0.8, "ev_next": [None, 1]}, "policy": pol})
    # a failure at a request that mosaik passes on FOR ANOTHER simulator: the agent Sb asks for Sa's data during its own step
    # (asynchronous get_data, cache off so that the request really reaches Sa), and Sa fails at exactly that request - Sa is the
    # failed simulator; the healthy agent (and the bystander Sc) still receive stop / finalize exactly once
    abase = {"sims": [{"sid": "Sa", "type": "time-based"}, {"sid": "Sb", "type": "time-based"}, {"sid": "Sc", "type": "time-based"}],
             "conns": [{"src": "Sa", "dst": "Sb", "sa": "p", "da": "i", "async": True}, {"src": "Sa", "dst": "Sc", "sa": "p2", "da": "i"}], "until": 4, "cache": False}
    agents = {"Sb": {"target": "Sa", "attr": "i", "p": 0.5, "get": "p2"}}
    for tr in ({"Sa": "async", "Sb": "async", "Sc": "async"}, {"Sa": "local", "Sb": "local", "Sc": "local"}, {"Sa": "remote", "Sb": "local", "Sc": "async"},
               {"Sa": "async", "Sb": "local", "Sc": "remote"}):
        for k in (1, 2):
            for lazy in (True, False):
                kind = {"remote": "eof", "async": "raise", "local": "raise"}[tr["Sa"]]
                scn = dict(abase, lazy=lazy, sims=[dict(x, transport=tr[x["sid"]], **({"gen": True} if tr[x["sid"]] == "local" else {})) for x in abase["sims"]])
                plan = {"sid": "Sa", "req": "get_data", "k": k, "kind": kind, "forwarded": True}
                for pi, pol in enumerate([{"kind": "fifo"}, {"kind": "random", "early": 0.5}]):
                    for sd in range(3):
                        out.append({"id": ["forwarded", sorted(tr.items()), k, lazy, pi, sd], "scn": S.normalize(scn), "seed": rng.randrange(10**6),
                                    "behaviour": {"kind": "faultplan", "plan": plan, "agents": agents, "tb_next": [1]}, "policy": pol})
    return out


def run(tier, seed):
    t0 = time.time()
    out, secs, rc = tlc.run_tlc("MosaikFaults", cfg="MosaikFaults.cfg", workers=4, timeout=600)
    if "No error has been found" not in out:
        raise tlc.TLCError("MosaikFaults.tla: " + "\n".join(out.splitlines()[-30:]))
    mst = tlc.stats(out)
    cs = cases(tier, seed)
    pairs = explore.run_cases(cs)
    # only executions in which the planned failure actually happened are judged for C14
    fired = [(c, r) for c, r in pairs if any(e["k"] == "FAULT" for e in r["item"]["ev"])]
    findings, st = sched_checks.judge_results("C14", fired)
    import collections

    # the World's life cycle (start / group / connect / run / shutdown in ANY order): WorldLife.tla model-checked, its whole state
    # graph replayed on the real World, every recorded call validated by WorldLifeTrace.tla - drift only, never a verdict
    from harness import life

    wl = life.layer(tier, seed)
    kinds = collections.Counter(next(e["kind"] for e in r["item"]["ev"] if e["k"] == "FAULT") for c, r in fired)
    cov = {
        "states": mst["distinct"] + st["monitor"]["states"] + wl["model_states"] + wl["trace_validation_states"],
        "transitions": mst["generated"] + st["monitor"]["generated"] + wl["model_transitions"] + wl["trace_validation_states"],
        "world_lifecycle_layer": wl,
        "traces_validated_against_impl": st["executions"],
        "samples": sched_checks.sample_of(fired[:1] + fired[len(fired) // 2: len(fired) // 2 + 1]),
        "evaluations": st["executions"], "distinct_nontrivial": st["distinct_traces"],
        "rule": "crash point = (simulator, request kind in setup_done/step/get_data, request index) of every simulator of 4 small scenarios x failure kind "
                "(connection closed / reset with the request outstanding, death while idle after answering, remote handler raising, in-process raise) x transport "
                "(shipped RemoteProxy+Channel over fake streams, AsyncProxy, shipped LocalProxy) x reply schedules; only executions in which the planned failure "
                "fired are counted; distinct = distinct observable histories",
        "exhaustive": False,
        "planned": len(cs), "fired": len(fired), "fault_kinds": dict(kinds),
        "outcomes": st["stats"],
        "model": {"module": "MosaikFaults", "states": mst["distinct"], "transitions": mst["generated"]},
        "checker_cmd": "tlc -config MosaikFaults.cfg MosaikFaults; tlc -config RefTrace.cfg RefTrace (TRACE_FILE=<batch>)",
    }
    assumptions = ["sockets and processes are replaced by hand-fed asyncio streams (shipped RemoteProxy / Channel code runs unchanged); the OS-level clause "
                   "(no simulator process or socket left behind) is not observed by this check",
                   "'promptly' = before the virtual event loop becomes idle with run() pending"]
    return checklib.conclude("C14", tier, seed, findings, cov, t0, assumptions)

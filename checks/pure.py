"""Checks of the pure, input-quantified functions: C08 (tiered delay arithmetic), C06 (cycle
detection), C11 (connect validation), C12 (attribute classification), C15 (API adapters),
C18 (bulk connection helpers).

Common scheme (DESIGN.md §2): a small TLA+ module gives the SEMANTIC definition; the results
of the REAL functions from /repo's working tree are recorded as a table over an exhaustively
enumerated bounded input space; TLC validates every recorded result against the module.
"""
from __future__ import annotations

import itertools
import json
import os
import re
import shutil
import time

from harness import checklib, tlc

ASSUME = ["the recorded table is produced by calling the real functions of /repo's working tree in this process",
          "bounded input space (stated in coverage.rule); nothing is claimed beyond it"]


def run_table(module, table, timeout=1800, workers=1, heap="4g"):
    wd = tlc.scratch()
    try:
        path = os.path.join(wd, "table.json")
        json.dump(table, open(path, "w"))
        out, secs, rc = tlc.run_tlc(module, cfg=module + ".cfg", env={"TRACE_FILE": path}, workers=workers, timeout=timeout, heap=heap)
    finally:
        shutil.rmtree(wd, ignore_errors=True)
    return out, secs


# --------------------------------------------------------------------------- C08


def c08_table(vmax, timemax, assocmax):
    from mosaik.tiered_time import TieredInterval as TI, TieredTime as TT

    V = range(vmax + 1)
    classes = {}
    allivs = []
    for n in (1, 2, 3):
        for tiers in itertools.product(V, repeat=n):
            for c in range(1, n + 1):
                for p in range(c, 4):
                    iv = TI(*tiers, cutoff=c, pre_length=p)
                    classes.setdefault((n, p), []).append(iv)
                    allivs.append(iv)

    def rec(iv):
        return {"t": list(iv.tiers), "c": iv.cutoff, "p": iv.pre_length}

    def tri(f):
        try:
            return "T" if f() else "F"
        except AssertionError:
            return "I"

    out_classes = []
    for (n, p), L in sorted(classes.items()):
        idx = {iv: i + 1 for i, iv in enumerate(L)}
        mins = []
        for a in L:
            row = []
            for b in L:
                try:
                    m = min(a, b)
                    row.append(next(i + 1 for i, x in enumerate(L) if x is m))
                except AssertionError:
                    row.append(0)
            mins.append(row)
        out_classes.append({
            "n": n, "p": p, "ivs": [rec(iv) for iv in L],
            "lt": [[tri(lambda: a < b) for b in L] for a in L],
            "eq": [[tri(lambda: a == b) for b in L] for a in L],
            "gt": [[tri(lambda: a > b) for b in L] for a in L],
            "le": [[tri(lambda: a <= b) for b in L] for a in L],
            "min": mins,
        })
    adds = []
    for a in allivs:
        for b in allivs:
            if len(a) != b.pre_length:
                continue
            try:
                r = a + b
                adds.append({"a": rec(a), "b": rec(b), "ok": True, "r": rec(r)})
            except Exception as e:  # noqa: BLE001
                adds.append({"a": rec(a), "b": rec(b), "ok": False, "r": rec(a), "exc": type(e).__name__})
    applies = []
    for iv in allivs:
        for t in itertools.product(V, repeat=iv.pre_length):
            try:
                r = TT(*t) + iv
                applies.append({"t": list(t), "iv": rec(iv), "ok": True, "r": list(r.tiers)})
            except Exception:  # noqa: BLE001
                applies.append({"t": list(t), "iv": rec(iv), "ok": False, "r": list(t)})
    return {"classes": out_classes, "adds": adds, "applies": applies, "timemax": timemax, "assocmax": assocmax}, len(allivs)


_R08 = re.compile(r'<<"R08", (\d+), (\d+), \{(.*)\}\s*>>$', re.S)


def c08(tier, seed):
    t0 = time.time()
    vmax = 2
    table, nivs = c08_table(vmax, timemax=vmax + 1, assocmax=1 if tier == "quick" else 2)
    out, secs = run_table("TieredOrder", table, timeout=3000)
    findings = []
    npairs = sum(len(c["ivs"]) ** 2 for c in table["classes"])
    nc = len(table["classes"])
    done = set()
    phases = 0
    for txt in tlc.tuples(out, "R08"):
        m = _R08.match(txt)
        if not m:
            continue
        k, phases = int(m.group(1)), int(m.group(2))
        done.add(k)
        for clause, i, j in re.findall(r'<<"(\w+)", (\d+), (\d+)>>', m.group(3)):
            i, j = int(i), int(j)
            extra = {"phase": k}
            if k <= nc:
                cls = table["classes"][k - 1]
                extra.update({"a": cls["ivs"][i - 1], "b": cls["ivs"][j - 1], "lt_ab": cls["lt"][i - 1][j - 1],
                              "lt_ba": cls["lt"][j - 1][i - 1], "eq": cls["eq"][i - 1][j - 1]})
            elif "compose" in clause or "combined" in clause:
                extra["record"] = table["adds"][i - 1]
            else:
                extra["record"] = table["applies"][i - 1]
            findings.append(checklib.Finding("C08", clause, case={"id": [clause, k, i, j], "kind": "c08"}, detail=json.dumps(extra), extra=extra))
        if "C08_not_associative" in m.group(3):
            findings.append(checklib.Finding("C08", "C08_not_associative", case={"id": ["assoc"], "kind": "c08"}, detail=m.group(3)[:500]))
    if not phases or done != set(range(1, phases + 1)):
        raise tlc.TLCError("TieredOrder did not complete\n" + "\n".join(out.splitlines()[-30:]))
    st = tlc.stats(out)
    cov = {
        "states": st["distinct"], "transitions": st["generated"], "traces_validated_against_impl": npairs + len(table["adds"]) + len(table["applies"]),
        "samples": [{"a": table["classes"][3]["ivs"][1], "b": table["classes"][3]["ivs"][5], "lt": table["classes"][3]["lt"][1][5]},
                    table["adds"][100], table["applies"][50]],
        "evaluations": npairs + len(table["adds"]) + len(table["applies"]),
        "distinct_nontrivial": npairs + len(table["adds"]) + len(table["applies"]),
        "rule": f"all {nivs} TieredIntervals with length<=3, 1<=cutoff<=length, cutoff<=pre_length<=3, tier values 0..{vmax}: every same-class ordered pair "
                f"({npairs}) with the results of <, ==, >, <=, min; every type-correct a+b ({len(table['adds'])}); every time+interval ({len(table['applies'])}); "
                f"pointwise order over times with tier values 0..{vmax + 1}; associativity of the specification's Compose over tier values 0..{table['assocmax']}. "
                "Each recorded result is one validated 'trace'; all are distinct inputs.",
        "exhaustive": True,
        "checker_cmd": "tlc -workers 1 -config TieredOrder.cfg TieredOrder (TRACE_FILE=<table>)",
        "tlc_secs": round(secs, 1),
    }
    return checklib.conclude("C08", tier, seed, findings, cov, t0, ASSUME, max_report=3)


RUN = {"C08": c08}


def run(prop, tier, seed):
    return RUN[prop](tier, seed)

"""Checks of the pure, input-quantified functions: C08 (tiered delay arithmetic), C06 (cycle
detection), C11 (connect validation), C12 (attribute classification), C15 (API adapters),
C18 (bulk connection helpers).

Common scheme (DESIGN.md §2): a small TLA+ module gives the SEMANTIC definition; the results
of the REAL functions from /repo's working tree are recorded as a table over an exhaustively
enumerated bounded input space; TLC validates every recorded result against the module.
"""
from __future__ import annotations

import itertools
import json
import os
import re
import shutil
import time

from harness import checklib, tlc

ASSUME = ["the recorded table is produced by calling the real functions of /repo's working tree in this process",
          "bounded input space (stated in coverage.rule); nothing is claimed beyond it"]


def run_table(module, table, timeout=1800, workers=1, heap="4g"):
    wd = tlc.scratch()
    try:
        path = os.path.join(wd, "table.json")
        json.dump(table, open(path, "w"))
        out, secs, rc = tlc.run_tlc(module, cfg=module + ".cfg", env={"TRACE_FILE": path}, workers=workers, timeout=timeout, heap=heap)
    finally:
        shutil.rmtree(wd, ignore_errors=True)
    return out, secs


# --------------------------------------------------------------------------- C08


def c08_table(vmax, timemax, assocmax, lengths=(1, 2, 3), pmax=3, values=None, tvals=None):
    from mosaik.tiered_time import TieredInterval as TI, TieredTime as TT

    class _Fresh(tuple):
        """Tier values as FRESH int objects on every use (CPython shares the ints -5..256; accumulated delays are never shared)."""

        def __iter__(self):
            return (int(str(v)) for v in tuple.__iter__(self))

    V = _Fresh(values) if values is not None else range(vmax + 1)
    TV = _Fresh(tvals) if tvals is not None else V
    classes = {}
    allivs = []
    for n in lengths:
        for tiers in itertools.product(V, repeat=n):
            for c in range(1, n + 1):
                for p in range(c, pmax + 1):
                    iv = TI(*(int(str(v)) for v in tiers), cutoff=c, pre_length=p)  # (fresh int objects for every interval)
                    classes.setdefault((n, p), []).append(iv)
                    allivs.append(iv)

    def rec(iv):
        return {"t": list(iv.tiers), "c": iv.cutoff, "p": iv.pre_length}

    def tri(f):
        try:
            return "T" if f() else "F"
        except AssertionError:
            return "I"

    out_classes = []
    for (n, p), L in sorted(classes.items()):
        idx = {iv: i + 1 for i, iv in enumerate(L)}
        mins = []
        for a in L:
            row = []
            for b in L:
                try:
                    m = min(a, b)
                    row.append(next(i + 1 for i, x in enumerate(L) if x is m))
                except AssertionError:
                    row.append(0)
            mins.append(row)
        out_classes.append({
            "n": n, "p": p, "ivs": [rec(iv) for iv in L],
            "lt": [[tri(lambda: a < b) for b in L] for a in L],
            "eq": [[tri(lambda: a == b) for b in L] for a in L],
            "gt": [[tri(lambda: a > b) for b in L] for a in L],
            "le": [[tri(lambda: a <= b) for b in L] for a in L],
            "min": mins,
        })
    adds = []
    for a in allivs:
        for b in allivs:
            if len(a) != b.pre_length:
                continue
            try:
                r = a + b
                adds.append({"a": rec(a), "b": rec(b), "ok": True, "r": rec(r)})
            except Exception as e:  # noqa: BLE001
                adds.append({"a": rec(a), "b": rec(b), "ok": False, "r": rec(a), "exc": type(e).__name__})
    applies = []
    for iv in allivs:
        for t in itertools.product(TV, repeat=iv.pre_length):
            try:
                r = TT(*(int(str(v)) for v in t)) + iv
                applies.append({"t": list(t), "iv": rec(iv), "ok": True, "r": list(r.tiers)})
            except Exception:  # noqa: BLE001
                applies.append({"t": list(t), "iv": rec(iv), "ok": False, "r": list(t)})
    tab = {"classes": out_classes, "adds": adds, "applies": applies, "timemax": timemax, "assocmax": assocmax}
    if tvals is not None:
        tab["tvals"] = list(tvals)
    return tab, len(allivs)


_R08 = re.compile(r'<<"R08", (\d+), (\d+), \{(.*)\}\s*>>$', re.S)


def _c08_judge(table):
    out, secs = run_table("TieredOrder", table, timeout=3000)
    findings = []
    nc = len(table["classes"])
    done = set()
    phases = 0
    for txt in tlc.tuples(out, "R08"):
        m = _R08.match(txt)
        if not m:
            continue
        k, phases = int(m.group(1)), int(m.group(2))
        done.add(k)
        for clause, i, j in re.findall(r'<<"(\w+)", (\d+), (\d+)>>', m.group(3)):
            i, j = int(i), int(j)
            extra = {"phase": k}
            if k <= nc:
                cls = table["classes"][k - 1]
                extra.update({"a": cls["ivs"][i - 1], "b": cls["ivs"][j - 1], "lt_ab": cls["lt"][i - 1][j - 1],
                              "lt_ba": cls["lt"][j - 1][i - 1], "eq": cls["eq"][i - 1][j - 1]})
            elif "compose" in clause or "combined" in clause:
                extra["record"] = table["adds"][i - 1]
            else:
                extra["record"] = table["applies"][i - 1]
            findings.append(checklib.Finding("C08", clause, case={"id": [clause, k, i, j], "kind": "c08"}, detail=json.dumps(extra), extra=extra))
        if "C08_not_associative" in m.group(3):
            findings.append(checklib.Finding("C08", "C08_not_associative", case={"id": ["assoc"], "kind": "c08"}, detail=m.group(3)[:500]))
    if not phases or done != set(range(1, phases + 1)):
        raise tlc.TLCError("TieredOrder did not complete\n" + "\n".join(out.splitlines()[-30:]))
    npairs = sum(len(c["ivs"]) ** 2 for c in table["classes"])
    return findings, tlc.stats(out), secs, npairs + len(table["adds"]) + len(table["applies"]), npairs


def c08(tier, seed):
    t0 = time.time()
    vmax = 2
    table, nivs = c08_table(vmax, timemax=vmax + 1, assocmax=1 if tier == "quick" else 2)
    findings, st, secs, nres, npairs = _c08_judge(table)
    # simulators three groups deep have four tiers: the same laws for every interval of length 4 (tier values 0..1)
    table4, nivs4 = c08_table(1, timemax=2, assocmax=0, lengths=(4,), pmax=4)
    f4, st4, secs4, nres4, npairs4 = _c08_judge(table4)
    for f in f4:
        f.case["id"] = ["len4"] + f.case["id"]
    findings += f4
    # LARGE tier values (a shift of 300 steps), every value a fresh int object as the sums mosaik computes are
    tableL, nivsL = c08_table(0, timemax=0, assocmax=0, lengths=(1, 2, 3), pmax=3, values=(0, 300), tvals=(0, 1, 300, 301))
    fL, stL, secsL, nresL, npairsL = _c08_judge(tableL)
    for f in fL:
        f.case["id"] = ["large"] + f.case["id"]
    findings += fL
    st4 = {"distinct": st4["distinct"] + stL["distinct"], "generated": st4["generated"] + stL["generated"]}
    nres4 += nresL
    secs4 += secsL
    # unbounded: TLAPS proofs that Compose agrees with applying the delays one after the other, and is associative, for delays and
    # times of every shape and ALL integer tier values (the tables bind Compose / Apply to mosaik's operators on the bounded range)
    proof = tlc.run_tlaps("TieredProof", deps=("Tiered.tla",))
    proof["theorems"] = ["ComposeIsSequentialApply", "ComposeAssociative"]
    fP, covP = c08_paths(tier, seed)
    findings += fP
    fW, covW = c08_waits()
    findings += fW
    st4 = {"distinct": st4["distinct"] + covP["states"], "generated": st4["generated"] + covP["transitions"]}
    nres4 += covP["rows"]
    cov = {
        "states": st["distinct"] + st4["distinct"], "transitions": st["generated"] + st4["generated"], "traces_validated_against_impl": nres + nres4,
        "accumulated_path_delays": covP,
        "delays_applied_in_waits": covW,
        "tlaps_proof": proof,
        "samples": [{"a": table["classes"][3]["ivs"][1], "b": table["classes"][3]["ivs"][5], "lt": table["classes"][3]["lt"][1][5]},
                    table["adds"][100], table["applies"][50]],
        "evaluations": nres + nres4,
        "distinct_nontrivial": nres + nres4,
        "rule": f"all {nivs} TieredIntervals with length<=3, 1<=cutoff<=length, cutoff<=pre_length<=3, tier values 0..{vmax}: every same-class ordered pair "
                f"({npairs}) with the results of <, ==, >, <=, min; every type-correct a+b ({len(table['adds'])}); every time+interval ({len(table['applies'])}); "
                f"pointwise order over times with tier values 0..{vmax + 1}; associativity of the specification's Compose over tier values 0..{table['assocmax']}. "
                f"Plus all {nivs4} intervals of length 4 (cutoff<=pre_length<=4, tier values 0..1; {npairs4} same-class pairs, {len(table4['adds'])} sums, "
                f"{len(table4['applies'])} applications; pointwise order over times with tier values 0..2). "
                f"Plus all {nivsL} intervals of length<=3 over the tier values {{0, 300}} built from fresh int objects ({npairsL} pairs; times over {{0,1,300,301}}). "
                f"Plus the delays mosaik ACCUMULATES (World.cache_triggering_ancestors, update_min) for {covP['rows']} grouped connection graphs of 2-4 simulators "
                f"({covP['recorded_pairs']} recorded (simulator, ancestor) delays) against the path semantics of PathDelays.tla (recorded iff a path exists, is a path's delay, not dominated by another path). "
                f"Plus {covW.get('rows', 0)} answers of Progress._triggered_time (every progress value, type-correct delay, target and kind of wait over small tier values) against Apply (ProgressApply.tla). "
                "Each recorded result is one validated 'trace'; all are distinct inputs.",
        "exhaustive": True,
        "checker_cmd": "tlc -workers 1 -config TieredOrder.cfg TieredOrder (TRACE_FILE=<table>), twice",
        "tlc_secs": round(secs + secs4, 1),
    }
    return checklib.conclude("C08", tier, seed, findings, cov, t0, ASSUME, max_report=3)


# ---- C08, second part: the delays mosaik accumulates over trigger paths (update_min / min over delays) --------------


def c08_path_scenarios(tier, seed):
    """Connection graphs over 2-4 simulators in the group tree root / [1] / [1,2] / [3] / [1,2,4], trigger connections that are
    plain, time-shifted or (inside a shared group) weak: every graph over 2 simulators with <= 3 and over 3 simulators with <= 3
    connections (thorough: 4), plus seeded graphs over 3-4 simulators with 3-6 connections."""
    import random

    from harness import scn as S_

    pool = [[], [1], [1, 2], [3], [1, 2, 4]]

    def options(gps):
        opts = []
        for a in range(len(gps)):
            for b in range(len(gps)):
                if a == b:
                    continue
                base = {"src": C06_SIDS[a], "dst": C06_SIDS[b], "sa": "e", "da": "ti"}
                opts += [dict(base), dict(base, shift=1)]
                if S_.can_weak(gps[a], gps[b]):
                    opts.append(dict(base, weak=True))
        return opts

    out = []
    for nsims, maxc in ((2, 3), (3, 4 if tier == "thorough" else 3)):
        for pl in itertools.combinations_with_replacement(range(len(pool)), nsims):
            gps = [pool[i] for i in pl]
            if not any(gps):
                continue  # no groups: all delays have one tier
            sims = [{"sid": C06_SIDS[i], "type": "hybrid", "gpath": list(gps[i])} for i in range(nsims)]
            opts = options(gps)
            for k in range(1, maxc + 1):
                for combo in itertools.combinations(range(len(opts)), k):
                    out.append({"sims": sims, "conns": [dict(opts[i]) for i in combo], "until": 1, "lazy": False})
    rng = random.Random(f"c08p|{seed}")
    for _ in range(3000 if tier == "quick" else 30000):
        n = rng.choice([3, 4, 4])
        gps = [rng.choice(pool) for _ in range(n)]
        opts = options(gps)
        combo = sorted(set(rng.randrange(len(opts)) for _ in range(rng.randint(3, 6))))
        order = C06_SIDS[:n]
        rng.shuffle(order)
        out.append({"sims": [{"sid": C06_SIDS[i], "type": "hybrid", "gpath": list(gps[i])} for i in range(n)],
                    "conns": [dict(opts[i]) for i in combo], "until": 1, "lazy": False, "order": order})
    return out


def _c08_path_row(scn):
    from harness import behave, drive, scn as S_

    got = {}

    def hook(ctx):
        w = ctx.world
        try:
            w.cache_triggering_ancestors()
            got["out"] = "ok"
        except AssertionError as e:
            got["out"] = "assert" if "incomparable" in str(e) else "other"
            got["msg"] = str(e)[:120]
        except BaseException as e:  # noqa: BLE001
            got["out"], got["msg"] = "other", f"{type(e).__name__}: {e}"[:120]
        got["anc"] = [{"s": sid, "a": a.sid, "iv": {"t": list(d.tiers), "c": d.cutoff, "p": d.pre_length}}
                      for sid, sim in w.sims.items() for a, d in sim.triggering_ancestors.items()] if got["out"] == "ok" else []
        for sim in w.sims.values():
            sim.triggering_ancestors.clear()

    ctx = drive.execute(scn, behave.RandomBehaviour(0, p_event=0.0, ev_next=(None,)), behave.FifoPolicy(), hooks=hook)
    if ctx.outcome.get("phase") == "build" or "out" not in got:
        return None
    if ctx.outcome["r"] == "ScenarioError":
        return None  # refused by the cycle check: mosaik never accumulates trigger delays for such a scenario
    return {"scn": S_.tla_scn(ctx.scn), "out": got["out"], "anc": got["anc"], "msg": got.get("msg", "")}


def _c08_path_rows(scns):
    return [r for r in (_c08_path_row(s) for s in scns) if r is not None]


def c08_paths(tier, seed):
    import concurrent.futures as cf
    import multiprocessing as mp

    scns = c08_path_scenarios(tier, seed)
    chunks = [scns[i:i + 300] for i in range(0, len(scns), 300)]
    with mp.get_context("fork").Pool(min(16, os.cpu_count() or 4)) as pool:
        rows = [r for rs in pool.map(_c08_path_rows, chunks) for r in rs]
    parts = [rows[i:i + 3000] for i in range(0, len(rows), 3000)]
    with cf.ThreadPoolExecutor(max_workers=8) as ex:
        results = list(ex.map(lambda part: _judge_rows("PathDelays", "R08P", part), parts))
    findings, states, trans = [], 0, 0
    for part, (viol, st, secs) in zip(parts, results):
        states += st["distinct"]
        trans += st["generated"]
        for clause, n in viol:
            row = part[n]
            findings.append(checklib.Finding("C08", clause, case={"id": [clause, "paths", json.dumps(row["scn"]["conns"])[:200]], "kind": "c08p", "scn": row["scn"]},
                                             detail=json.dumps({"anc": row["anc"]})[:600], extra={"row": row}))
    for r in rows:
        if r["out"] == "other":
            findings.append(checklib.Finding("C08", "C08_accumulating_delays_failed", case={"id": ["paths-other", r["msg"]], "kind": "c08p", "scn": r["scn"]}, detail=r["msg"]))
    import collections

    return findings, {"rows": len(rows), "states": states, "transitions": trans, "outcomes": dict(collections.Counter(r["out"] for r in rows)),
                      "recorded_pairs": sum(len(r["anc"]) for r in rows)}


def c08_wait_rows():
    """Progress._triggered_time for every progress value, type-correct delay, target and kind of wait (tier values 0..2, lengths 1-3)."""
    from mosaik.progress import Progress
    from mosaik.tiered_time import TieredInterval as TI, TieredTime as TT

    rows = []
    vals = (0, 1, 2)
    for pl in (1, 2, 3):
        times = list(itertools.product(vals, repeat=pl))
        for n in (1, 2, 3):
            for c in range(1, min(pl, n) + 1):
                tiersets = list(itertools.product((0, 1), repeat=n))
                targets = list(itertools.product(vals, repeat=n))
                for tiers in tiersets:
                    iv = TI(*tiers, cutoff=c, pre_length=pl)
                    for t in times:
                        pr = Progress(TT(*t))
                        for tg in targets[:: (1 if n < 3 else 2)]:
                            for ps in (True, False):
                                res = pr._triggered_time((TT(*tg), iv, ps))
                                rows.append({"t": list(t), "iv": {"t": list(tiers), "c": c, "p": pl}, "tg": list(tg), "ps": ps,
                                             "res": list(res.tiers) if res is not None and res is not False else []})
    return rows


def c08_waits():
    try:
        rows = c08_wait_rows()
    except Exception as e:  # noqa: BLE001  (the class no longer has this shape: nothing to judge here - reported, not a verdict)
        print(f"DRIFT C08 wait table unavailable: {type(e).__name__}: {e} (mosaik/progress.py changed shape; not a verdict)")
        return [], {"rows": 0, "unavailable": f"{type(e).__name__}: {e}"[:120]}
    viol, st, secs = _judge_rows("ProgressApply", "R08W", rows)
    findings = [checklib.Finding("C08", clause, case={"id": [clause, "wait", n], "kind": "c08w", "row": rows[n]}, detail=json.dumps(rows[n]), extra={"row": rows[n]})
                for clause, n in viol]
    return findings, {"rows": len(rows), "states": st["distinct"], "transitions": st["generated"]}


RUN = {"C08": c08}


def run(prop, tier, seed):
    return RUN[prop](tier, seed)


# --------------------------------------------------------------------------- C06

GP_POOL = [[], [1], [1, 2], [3]]
C06_SIDS = ["Sa", "Sb", "Sc", "Sd", "Se", "Sf", "Sg"]


def c06_rings(tier, rng):
    """Long cycles: a ring of 4-6 (thorough: 7) simulators made of plain connections with an OVERLAY of time-shifted connections
    (back along every ring edge / skip-one chords / every other ordered pair) that first records longer delays between ring
    members, in several start orders; and the same with one ring connection time-shifted (resolved: must be accepted)."""
    out = []
    for n in range(4, (8 if tier == "thorough" else 7)):
        sids = C06_SIDS[:n]
        ring = [(i, (i + 1) % n) for i in range(n)]
        overlays = {
            "none": [],
            "reverse": [(b, a) for a, b in ring],
            "chords": [(i, (i + 2) % n) for i in range(n)],
            "all": [(a, b) for a in range(n) for b in range(n) if a != b and (a, b) not in ring],
        }
        for oname, extra in overlays.items():
            for resolved in (False, True):
                for k in range(6 if tier == "quick" else 12):
                    conns = [{"src": sids[a], "dst": sids[b], "sa": "e", "da": "ti"} for a, b in ring]
                    if resolved:
                        conns[rng.randrange(n)]["shift"] = 1
                    conns += [{"src": sids[a], "dst": sids[b], "sa": "e", "da": "ti", "shift": 1} for a, b in extra]
                    rng.shuffle(conns)
                    order = sids[:]
                    rng.shuffle(order)
                    out.append({"sims": [{"sid": x, "type": "hybrid", "gpath": []} for x in sids], "conns": conns, "until": 1, "lazy": False,
                                "maxloop": 3, "order": order})
    return out


def c06_options(gps):
    """All single connections over the simulators with group paths gps."""
    from harness import scn as S

    n = len(gps)
    opts = []
    for a in range(n):
        for b in range(n):
            base = {"src": C06_SIDS[a], "dst": C06_SIDS[b], "sa": "e", "da": "ti"}
            opts.append(dict(base))
            opts.append(dict(base, shift=1))
            if S.can_weak(gps[a], gps[b]):
                opts.append(dict(base, weak=True))
                opts.append(dict(base, weak=True, shift=1))  # both flags on one connection: the shift resolves every cycle
            if a != b:
                opts.append({"src": C06_SIDS[a], "dst": C06_SIDS[b], "async": True})
            else:
                # an attribute wired straight back into itself (same entity, same name on both sides)
                opts.append({"src": C06_SIDS[a], "dst": C06_SIDS[b], "sa": "e", "da": "e"})
    return opts


def c06_scenarios(nsims, maxconns, placements=None):
    from harness import scn as S

    pls = placements or list(itertools.combinations_with_replacement(range(len(GP_POOL)), nsims))
    for pl in pls:
        gps = [GP_POOL[i] for i in pl]
        sims = [{"sid": C06_SIDS[i], "type": "hybrid", "gpath": list(gps[i])} for i in range(nsims)]
        opts = c06_options(gps)
        for k in range(1, maxconns + 1):
            for combo in itertools.combinations_with_replacement(range(len(opts)), k):
                # parallel identical connections add nothing
                if len(set(combo)) < len(combo):
                    continue
                yield {"sims": sims, "conns": [dict(opts[i]) for i in combo], "until": 1, "lazy": False, "maxloop": 3}


def _c06_row(scn):
    from harness import behave, drive, scn as S

    ctx = drive.execute(scn, behave.RandomBehaviour(0, p_event=0.0, ev_next=(None,)), behave.FifoPolicy())
    o = ctx.outcome
    if o.get("phase") == "build":
        # (every scenario of this family is legal: its weak connections join simulators that share a group)
        return {"scn": S.tla_scn(ctx.scn), "out": "other", "path": [], "steps": 0, "msg": ("the scenario could not be BUILT: " + o["r"] + ": " + o["msg"])[:200]}
    if getattr(ctx, "refused_accepted", False):
        return {"scn": S.tla_scn(ctx.scn), "out": "other", "path": [], "steps": 0, "msg": "a connect() call with an unknown source attribute was accepted"}
    steps = sum(1 for e in ctx.trace if e["k"] == "SB")
    if o["r"] == "ok":
        out = "accepted"
    elif o["r"] == "ScenarioError":
        out = "ScenarioError"  # (whatever the wording: run() refused the scenario before it started)
    else:
        out = "other"
    path = re.findall(r"sid='(\w+)'", o["msg"]) if out == "ScenarioError" else []
    return {"scn": S.tla_scn(ctx.scn), "out": out, "path": path, "steps": steps, "msg": (o["r"] + ": " + o["msg"])[:160] if out == "other" else ""}


def _c06_rows(scns):
    return [r for r in (_c06_row(s) for s in scns) if r is not None]


_R06 = re.compile(r'<<"R06", (\d+), (\d+), \{(.*)\}\s*>>$', re.S)


def _judge_c06(rows):
    out, secs = run_table("Cycles", rows, timeout=3000)
    viol = []
    done = set()
    chunks = 0
    for txt in tlc.tuples(out, "R06"):
        m = _R06.match(txt)
        if not m:
            continue
        done.add(int(m.group(1)))
        chunks = int(m.group(2))
        for clause, n in re.findall(r'<<"(\w+)", (\d+)>>', m.group(3)):
            viol.append((clause, int(n) - 1))
    if not chunks or done != set(range(1, chunks + 1)):
        raise tlc.TLCError("Cycles did not complete\n" + "\n".join(out.splitlines()[-30:]))
    return viol, tlc.stats(out), secs


def c06(tier, seed):
    import concurrent.futures as cf
    import multiprocessing as mp
    import random

    t0 = time.time()
    scns = list(c06_scenarios(2, 4 if tier == "thorough" else 3)) + list(c06_scenarios(3, 3 if tier == "thorough" else 2))
    # sampled beyond the exhaustive part: 3 simulators with 3-4 connections, 4 simulators (D3 needs 4)
    rng = random.Random(f"c06|{seed}")
    nsample = 40000 if tier == "thorough" else 6000
    for _ in range(nsample):
        n = rng.choice([3, 4, 4])
        gps = [rng.choice(GP_POOL) for _ in range(n)]
        opts = c06_options(gps)
        k = rng.randint(3, 5)
        combo = sorted(set(rng.randrange(len(opts)) for _ in range(k)))
        scns.append({"sims": [{"sid": C06_SIDS[i], "type": "hybrid", "gpath": list(gps[i])} for i in range(n)],
                     "conns": [dict(opts[i]) for i in combo], "until": 1, "lazy": False, "maxloop": 3})
        if rng.random() < 0.3:
            # the group context managers are created up front and entered later / one manager decorates a function called per group
            scns[-1]["group_cm"] = rng.choice(["upfront", "decorator"])
        if rng.random() < 0.3:
            # the script calls World.ensure_no_dataflow_cycles() itself before its last k connections (asynchronous ones last half of the time)
            if rng.random() < 0.5:
                scns[-1]["conns"].sort(key=lambda c_: bool(c_.get("async")))
            scns[-1]["precheck"] = rng.randint(0, max(0, len(scns[-1]["conns"]) - 1))
    nexh = len(scns) - nsample
    rings = c06_rings(tier, rng)
    scns += rings
    # history: the same scenarios with connect() calls that mosaik REFUSES (unknown attribute; the script catches the error) made
    # before / after the scenario's connections - plain or time-shifted, between any ordered pair: the verdict of run() is a
    # function of the connections that exist
    hist = []
    pool = list(c06_scenarios(2, 2)) + [sc for sc in scns[nexh:nexh + nsample] if len(sc["sims"]) == 3][: (400 if tier == "quick" else 4000)]
    for sc in pool:
        sids = [x["sid"] for x in sc["sims"]]
        for _ in range(2):
            a, b = rng.choice(sids), rng.choice(sids)
            if a == b:
                continue
            call = {"src": a, "dst": b, "when": rng.choice(["before", "after"]), "kw": rng.choice([{}, {}, {"time_shifted": True, "initial_data": {"zz_no_such_output": 0}}])}
            hist.append(dict(sc, refused_calls=[call]))
    scns += hist
    chunks = [scns[i:i + 500] for i in range(0, len(scns), 500)]
    with mp.get_context("fork").Pool(min(16, os.cpu_count() or 4)) as pool:
        rows = [r for rs in pool.map(_c06_rows, chunks) for r in rs]
    t1 = time.time()
    parts = [rows[i:i + 8000] for i in range(0, len(rows), 8000)]
    findings = []
    states = trans = 0
    with cf.ThreadPoolExecutor(max_workers=12) as ex:
        results = list(ex.map(_judge_c06, parts))
    for pi, (viol, st, secs) in enumerate(results):
        states += st["distinct"]
        trans += st["generated"]
        for clause, n in viol:
            row = parts[pi][n]
            findings.append(checklib.Finding("C06", clause, case={"id": [clause, pi, n], "kind": "c06", "scn": row["scn"]},
                                             detail=json.dumps({"out": row["out"], "path": row["path"], "msg": row["msg"]}),
                                             extra={"row": row}))
    spec_bad = [f for f in findings if f.clause.startswith("SPEC_")]
    if spec_bad:
        raise tlc.TLCError("the two cycle definitions of Cycles.tla disagree on " + json.dumps(spec_bad[0].extra["row"]["scn"]))
    import collections

    outs = collections.Counter(r["out"] for r in rows)
    cov = {
        "states": states, "transitions": trans, "traces_validated_against_impl": len(rows),
        "samples": [rows[5], next((r for r in rows if r["out"] == "ScenarioError"), rows[0])],
        "evaluations": len(rows), "distinct_nontrivial": len(rows),
        "rule": f"every connection multigraph (kinds plain / time-shifted / weak / weak+time-shifted / async_requests, every ordered pair incl. self) over 2 simulators with <= "
                f"{4 if tier == 'thorough' else 3} and over 3 simulators with <= {3 if tier == 'thorough' else 2} distinct connections, in every placement "
                f"(up to renaming) in the group tree root/[1]/[1,2]/[3] ({nexh} scenarios, exhaustive), plus {nsample} seeded scenarios of 3-4 simulators with 3-5 connections, plus {len(rings)} rings of 4-{7 if tier == 'thorough' else 6} simulators with time-shifted overlays in random start orders, plus {len(hist)} of these scenarios with a REFUSED connect() call (unknown attribute, caught by the script) before / after their connections; "
                "each is built with the real World/connect and run(until=1); one row per scenario, all distinct",
        "exhaustive": False,
        "outcomes": dict(outs),
        "record_secs": round(t1 - t0, 1),
        "checker_cmd": "tlc -workers 1 -config Cycles.cfg Cycles (TRACE_FILE=<rows>), parts of 8000 rows",
    }
    return checklib.conclude("C06", tier, seed, findings, cov, t0, ASSUME, max_report=3)


RUN["C06"] = c06


# --------------------------------------------------------------------------- C11

C11_GP = [[], [1], [1, 2], [3], [1, 4], [3, 5]]
SK = {"pers": "p", "event": "e", "none": "zz"}
DK = {"trig": "ti", "nontrig": "i", "none": "zz2"}


def c11_specs():
    singles = [[(sk, dk)] for sk in SK for dk in DK]
    multis = [[("pers", "nontrig"), ("event", "trig")], [("pers", "trig"), ("none", "trig")], [("event", "nontrig"), ("pers", "none")],
              [("none", "none"), ("pers", "nontrig")], [("pers", "nontrig"), ("event", "nontrig"), ("pers", "trig")]]
    for sg in C11_GP:
        for dg in C11_GP:
            for pairs in singles + multis:
                for shift in (0, 1, 2):
                    for weak in (False, True):
                        for init in (False, True):
                            for any_ in (False, True, "nolist"):
                                # "nolist": a hybrid any_inputs destination model without trigger / non-trigger lists
                                yield {"sg": sg, "dg": dg, "pairs": [{"sk": a, "dk": b} for a, b in pairs], "shift": shift, "weak": weak,
                                       "init": init, "any": bool(any_), "nolist": any_ == "nolist", "child": ""}
                                # the source / the destination entity is a CHILD of a non-public second model of its simulator with
                                # attributes of its own; kind "none" then is a name that only the PARENT's model has
                                if len(pairs) == 1 and shift < 2:
                                    for child in ("src", "dst"):
                                        yield {"sg": sg, "dg": dg, "pairs": [{"sk": a, "dk": b} for a, b in pairs], "shift": shift, "weak": weak,
                                               "init": init, "any": bool(any_), "nolist": any_ == "nolist", "child": child}


C11_PRIORS = ("noinit", "badattr", "badattr_rev", "group_exc", "accepted_shared_init")


def c11_history_specs():
    """The same connect() call AFTER something that must not matter: an earlier call of the same world that was (correctly)
    refused - for missing initial data on the pair (p, i), for an unknown attribute, for an unknown attribute in the opposite
    direction - or a group block that was left by an exception before the two simulators were started."""
    gp = [[], [1], [3]]
    for prior in C11_PRIORS:
        for sg in gp:
            for dg in gp:
                for sk in SK:
                    for dk in DK:
                        for shift in (0, 1):
                            for weak in (False, True):
                                for init in (False, True):
                                    if prior == "accepted_shared_init" and not init:
                                        continue
                                    yield {"sg": sg, "dg": dg, "pairs": [{"sk": sk, "dk": dk}], "shift": shift, "weak": weak, "init": init,
                                           "any": False, "nolist": False, "child": "", "prior": prior}


def c11_identifier_specs():
    """The same calls with simulator and entity ids that contain characters which mean something to string formatting ({ } %), since
    connect() builds its messages from them."""
    gp = [[], [1], [3]]
    for sg in gp:
        for dg in gp:
            for sk in SK:
                for dk in DK:
                    for shift in (0, 1):
                        for weak in (False, True):
                            for init in (False, True):
                                yield {"sg": sg, "dg": dg, "pairs": [{"sk": sk, "dk": dk}], "shift": shift, "weak": weak, "init": init,
                                       "any": False, "nolist": False, "child": "", "ids": "braces"}


def _obs(ctx, requests=False):
    """Per-simulator observation sequences: (time, inputs) of every step; with requests=True also the
    attribute lists of every get_data request (a request for data is data-flow, too)."""
    seq = {}
    for e in ctx.trace:
        if e["k"] == "SB":
            seq.setdefault(e["s"], []).append([e["t"], e["inp"]])
        elif requests and e["k"] == "DB":
            seq.setdefault(e["s"], []).append(["get_data", e.get("req")])
    return seq


def _c11_row(spec):
    from harness import behave, drive
    from mosaik.exceptions import ScenarioError

    scn = {"sims": [{"sid": "Sa", "type": "hybrid", "gpath": spec["sg"]}, {"sid": "Sb", "type": "hybrid", "gpath": spec["dg"], "any_inputs": spec["any"]}],
           "conns": [{"src": "Sa", "dst": "Sb", "sa": "p2", "da": "i2"}], "until": 2}
    if spec.get("nolist"):
        from harness import scn as S_

        meta = S_.meta_for("hybrid")
        meta["models"]["M"].pop("trigger", None)
        meta["models"]["M"]["any_inputs"] = True
        scn["sims"][1]["meta"] = meta
    if spec.get("ids") == "braces":
        from harness import scn as S_

        scn = S_.rename_sids(S_.normalize(scn), {"Sa": "S{a}", "Sb": "Grid{0}%s"})
        scn["eid_suffix"] = "{k}"
        sa_, sb_ = "S{a}", "Grid{0}%s"
    else:
        sa_, sb_ = "Sa", "Sb"
    res = {}
    prior = spec.get("prior", "")
    if prior == "group_exc":
        scn["abandoned_group"] = True
    if prior == "accepted_shared_init":
        scn["sims"][1]["nent"] = 2  # the same call is first made towards a SECOND entity of the destination simulator

    child = spec.get("child", "")
    if child == "src":
        scn["sims"][0]["children"] = True
    elif child == "dst":
        scn["sims"][1]["children"] = "nolist" if spec.get("nolist") else True
    sk_names = {"pers": "pk", "event": "ek", "none": "p"} if child == "src" else SK
    dk_names = {"trig": "tik", "nontrig": "ik", "none": "i"} if child == "dst" else DK

    def attempt(ctx, only=None, res=res):
        w = ctx.world
        src, dst = ctx.ents[sa_][0], ctx.ents[sb_][0]
        if child == "src":
            src = src.children[0]
        elif child == "dst":
            dst = dst.children[0]
        pairs = [(sk_names[p["sk"]], dk_names[p["dk"]]) for i, p in enumerate(spec["pairs"]) if only is None or (i + 1) in only]
        if not pairs:
            return
        kw = {}
        if spec["shift"]:
            kw["time_shifted"] = spec["shift"] if spec["shift"] > 1 else True
        if spec["weak"]:
            kw["weak"] = True
        if spec["init"]:
            kw["initial_data"] = {sa: "init." + sa for sa, _ in pairs}
        if prior == "accepted_shared_init" and res.get("with_prior", True):
            # an earlier call with the SAME arguments - in particular the same initial_data dict object, as in a loop over
            # destinations - towards another entity; accepted or refused exactly like the call under test
            try:
                w.connect(src, ctx.ents[sb_][1], *pairs, **kw)
                res["prior_out"] = "accepted"
            except ScenarioError:
                res["prior_out"] = "ScenarioError"
            except BaseException as e:  # noqa: BLE001
                res["prior_out"] = f"{type(e).__name__}"
        if prior in ("noinit", "badattr", "badattr_rev") and res.get("with_prior", True):
            # an earlier call of the same world that is refused (and whose ScenarioError the script catches)
            try:
                if prior == "noinit":
                    w.connect(src, dst, (SK["pers"], DK["nontrig"]), time_shifted=True)
                elif prior == "badattr":
                    w.connect(src, dst, (SK["none"], DK["trig"]))
                else:
                    w.connect(dst, src, (SK["none"], DK["none"]))
                res["prior_out"] = "accepted"
            except ScenarioError:
                res["prior_out"] = "ScenarioError"
            except BaseException as e:  # noqa: BLE001
                res["prior_out"] = f"{type(e).__name__}"
        try:
            w.connect(src, dst, *pairs, **kw)
            res["out"], res["named"] = "ok", []
        except ScenarioError as e:
            msg = str(e)
            res["out"] = "ScenarioError"
            res["named"] = [i + 1 for i, (sa, da) in enumerate(pairs) if f"connecting {src.full_id}.{sa} to {dst.full_id}.{da}:" in msg]
        except BaseException as e:  # noqa: BLE001
            res["out"], res["named"], res["msg"] = "other", [], f"{type(e).__name__}: {e}"[:200]

    beh = lambda: behave.RandomBehaviour(0, p_event=0.5)  # noqa: E731
    a = drive.execute(scn, beh(), behave.FifoPolicy(), hooks=attempt)
    same = True
    if res.get("out") == "ScenarioError":
        # the same call with only the pairs that were NOT rejected must behave identically - inputs of every step AND
        # the data requested from every simulator, with the cache on and off
        # (an error that names no pair - weak connection outside a group - rejects every pair of the call)
        keep = [i + 1 for i in range(len(spec["pairs"])) if (i + 1) not in res["named"]] if res["named"] else []
        for cache in (True, False):
            sc = dict(scn, cache=cache)
            a2 = a if cache else drive.execute(sc, beh(), behave.FifoPolicy(), hooks=lambda ctx: attempt(ctx, res={}))
            b = drive.execute(sc, beh(), behave.FifoPolicy(), hooks=lambda ctx: attempt(ctx, only=keep, res={}))
            same = same and a2.outcome["r"] == b.outcome["r"] and _obs(a2, True) == _obs(b, True)
    row = dict(spec)
    row.update({"out": res.get("out", "other"), "named": res.get("named", []), "sameobs": same, "msg": res.get("msg", "")})
    if prior:
        # the same call without that history: same verdict of connect(), same run (outcome, inputs of every step, requests)
        res0 = {"with_prior": False}
        scn0 = {k: v for k, v in scn.items() if k != "abandoned_group"}
        b0 = drive.execute(scn0, beh(), behave.FifoPolicy(), hooks=lambda ctx: attempt(ctx, res=res0))
        row["prior_out"] = res.get("prior_out", "ScenarioError" if prior == "group_exc" else "none")
        row["prior_must_fail"] = prior != "accepted_shared_init"
        same_verdict = (res.get("out"), res.get("named")) == (res0.get("out"), res0.get("named"))
        if prior == "accepted_shared_init":
            # (the earlier call is a connection of its own: only the VERDICT of the call under test must be the same, and the earlier
            # call must have got the same verdict)
            row["priorsame"] = same_verdict and res.get("prior_out") == ("accepted" if res.get("out") == "ok" else "ScenarioError")
        else:
            row["priorsame"] = same_verdict and a.outcome["r"] == b0.outcome["r"] and _obs(a, True) == _obs(b0, True)
    return row


def _c11_rows(specs):
    return [_c11_row(s) for s in specs]


def _judge_rows(module, tag, rows):
    out, secs = run_table(module, rows, timeout=3000)
    pat = re.compile(r'<<"' + tag + r'", (\d+), (\d+), \{(.*)\}\s*>>$', re.S)
    viol, done, chunks = [], set(), 0
    for txt in tlc.tuples(out, tag):
        m = pat.match(txt)
        if not m:
            continue
        done.add(int(m.group(1)))
        chunks = int(m.group(2))
        for clause, n in re.findall(r'<<"(\w+)", (\d+)>>', m.group(3)):
            viol.append((clause, int(n) - 1))
    if not chunks or done != set(range(1, chunks + 1)):
        raise tlc.TLCError(module + " did not complete\n" + "\n".join(out.splitlines()[-30:]))
    return viol, tlc.stats(out), secs


def _parallel_rows(fn, specs, chunk=200):
    import multiprocessing as mp

    chunks = [specs[i:i + chunk] for i in range(0, len(specs), chunk)]
    with mp.get_context("fork").Pool(min(16, os.cpu_count() or 4)) as pool:
        return [r for rs in pool.map(fn, chunks) for r in rs]


def c11(tier, seed):
    t0 = time.time()
    specs = list(c11_specs()) + list(c11_history_specs()) + list(c11_identifier_specs())
    rows = _parallel_rows(_c11_rows, specs)
    viol, st, secs = _judge_rows("ConnectRules", "R11", rows)
    findings = [checklib.Finding("C11", clause, case={"id": [clause, n], "kind": "c11", "row": rows[n]}, detail=json.dumps(rows[n]), extra={"row": rows[n]})
                for clause, n in viol]
    import collections

    cov = {
        "states": st["distinct"], "transitions": st["generated"], "traces_validated_against_impl": len(rows),
        "samples": [rows[7], next((r for r in rows if r["out"] == "ScenarioError"), rows[0])],
        "evaluations": len(rows), "distinct_nontrivial": len(rows),
        "rule": "cross product of 6x6 placements of source/destination in the group tree (root, [1], [1,2], [3], [1,4], [3,5]: same group, parent/child, "
                "siblings, cousins) x 9 single attribute pairs (persistent/event/not-an-output x trigger/non-trigger/not-an-input) + 5 multi-pair calls x "
                "time_shifted in {False, True, 2} x weak x initial data x any_inputs (off / on / on for a hybrid model without trigger lists) x (source / destination entity a child of a non-public second model); "
                "plus history rows: 3x3 placements x 9 pairs x shift x weak x initial data, each AFTER an earlier refused call of the same world (missing initial data on the same "
                "pair, unknown attribute, unknown attribute in the opposite direction) or after a group block left by an exception - verdict and run must equal those without the history; each row is one real World.connect() call; rejected calls are followed by "
                "a run whose per-simulator (time, inputs) sequences are compared with the scenario in which only the accepted pairs of the call are connected",
        "exhaustive": True,
        "outcomes": dict(collections.Counter(r["out"] for r in rows)),
        "checker_cmd": "tlc -workers 1 -config ConnectRules.cfg ConnectRules (TRACE_FILE=<rows>)",
    }
    return checklib.conclude("C11", tier, seed, findings, cov, t0, ASSUME + ["sibling-group behaviour at run time is judged by the C01 check (sibling_groups directed case, sibling families)"], max_report=3)


RUN["C11"] = c11


# --------------------------------------------------------------------------- C12


def _subsets(u):
    out = ["-"]
    for k in range(len(u) + 1):
        for c in itertools.combinations(u, k):
            out.append(list(c))
    return out


def c12_rows(universe):
    from mosaik.in_or_out_set import OutSet
    from mosaik.scenario import parse_attrs

    W = list(universe) + ["z"]
    subs = _subsets(universe)
    rows = []
    for typ in ("time-based", "event-based", "hybrid"):
        for any_ in (False, True):
            for attrs in subs:
                for tr in subs:
                    for nt in subs:
                        for ps in subs:
                            for np_ in subs:
                                desc = {}
                                for key, val in (("attrs", attrs), ("trigger", tr), ("non-trigger", nt), ("persistent", ps), ("non-persistent", np_)):
                                    if val != "-":
                                        desc[key] = list(val)
                                if any_:
                                    desc["any_inputs"] = True
                                vals = {"attrs": attrs, "tr": tr, "nt": nt, "ps": ps, "np": np_}
                                row = {"type": typ, "any": any_, "has": {k: v != "-" for k, v in vals.items()}}
                                row.update({k: ([] if v == "-" else list(v)) for k, v in vals.items()})
                                try:
                                    r = parse_attrs(desc, typ)
                                    row["ok"] = True
                                    for name, s in zip(("rnt", "rtr", "rps", "rnp"), r):
                                        row[name] = [x for x in W if x in s]
                                except ValueError:
                                    row.update({"ok": False, "rnt": [], "rtr": [], "rps": [], "rnp": []})
                                rows.append(row)
    return rows


class _C12Sim:
    """In-process simulator that announces whatever meta the recorder put into META (several models per simulator)."""
    META = {}

    def init(self, sid, time_resolution=1.0, **kw):
        import copy as _copy

        return _copy.deepcopy(_C12Sim.META)

    def create(self, num, model, **kw):
        return [{"eid": f"{model}{i}", "type": model} for i in range(num)]

    def step(self, time, inputs, max_advance):
        return time + 1

    def get_data(self, outputs):
        return {}

    def setup_done(self):
        pass

    def finalize(self):
        pass


def c12_siblings(rows, universe, limit, rng):
    """The classification a model gets when the simulator is STARTED (World.start -> ModelFactory -> ModelMock) must be the
    one parse_attrs gives for its description alone - whatever other models the same simulator has.  Every sampled
    description is started together with a sibling that has the same lists and the opposite any_inputs flag, in both orders."""
    import contextlib
    import io
    import warnings

    import mosaik

    W = list(universe) + ["z"]
    by = {}
    for r in rows:
        key = (r["type"], json.dumps([r[k] if r["has"][k] else None for k in ("attrs", "tr", "nt", "ps", "np")]))
        by.setdefault(key, {})[r["any"]] = r
    keys = [k for k in by if len(by[k]) == 2]
    rng.shuffle(keys)
    bad = []
    names = {"attrs": "attrs", "tr": "trigger", "nt": "non-trigger", "ps": "persistent", "np": "non-persistent"}
    for typ, kj in keys[:limit]:
        pair = by[(typ, kj)]
        # (the announced API version must not matter for the classification: older ones go through mosaik's adapters)
        ver = rng.choice(["3.0", "3.0", "3.0.16", "2.4", "2.2", "2.0", "2"])
        for first in (False, True, "twin", "named_type", "nonpublic"):
            models = {}
            if first == "nonpublic":
                # the description belongs to a NON-PUBLIC model (its entities only exist as children of another model's entities);
                # starting the simulator classifies or rejects it like any other model
                models["Par"] = {"public": True, "params": [], "attrs": []}
            if first == "named_type":
                # a PUBLIC model whose name is also the name of an attribute of mosaik's ModelFactory ("type"), listed first: the
                # models after it are classified as their descriptions alone are
                models["type"] = {"public": True, "params": [], "attrs": []}
            for any_ in ((first, not first) if first not in ("twin", "named_type", "nonpublic") else (False,)):
                r = pair[any_]
                d = {"public": first != "nonpublic", "params": []}
                for k, n in names.items():
                    if r["has"][k]:
                        d[n] = list(r[k])
                if any_:
                    d["any_inputs"] = True
                models["Many" if any_ else "Mno"] = d
            if first == "twin":
                # two models described by ONE dict object (COMMON = {...}; models = {'A': COMMON, 'B': COMMON}; an in-process
                # simulator's meta keeps that sharing): each is classified as the description alone is
                models["Mtwin"] = models["Mno"]
            _C12Sim.META = {"api_version": ver, "type": typ, "models": models}
            with contextlib.redirect_stdout(io.StringIO()), warnings.catch_warnings():
                warnings.simplefilter("ignore")
                world = mosaik.World({"S": {"python": "checks.pure:_C12Sim"}}, skip_greetings=True)
                try:
                    try:
                        fac = world.start("S")
                        got = {}
                    except Exception as e:  # noqa: BLE001
                        got = {name: {"ok": False, "exc": type(e).__name__} for name in models}
                        fac = None
                    for name in (models if fac is not None else ()):
                        try:
                            mm = fac.models[name] if hasattr(fac, "models") and isinstance(getattr(fac, "models"), dict) else getattr(fac, name)
                            sets = (mm.measurement_inputs, mm.event_inputs, mm.measurement_outputs, mm.event_outputs)
                            got[name] = {"ok": True, **{n: [x for x in W if x in st] for n, st in zip(("rnt", "rtr", "rps", "rnp"), sets)}}
                        except Exception as e:  # noqa: BLE001  (started, but the model has no classification: neither rejected nor classified)
                            got[name] = {"ok": True, "unclassified": type(e).__name__, "rnt": ["?"], "rtr": ["?"], "rps": ["?"], "rnp": ["?"]}
                finally:
                    world.shutdown()
            # the simulator as a whole is accepted iff both descriptions are; each model's classes are its own
            want_ok = all(pair[a]["ok"] for a in (False, True)) if first not in ("twin", "named_type", "nonpublic") else pair[False]["ok"]
            for any_, name in (((False, "Mno"), (True, "Many")) if first not in ("twin", "named_type", "nonpublic") else
                               ((False, "Mno"), (False, "Mtwin")) if first == "twin" else ((False, "Mno"),)):
                g, w = got[name], pair[any_]
                if g["ok"] != want_ok or (g["ok"] and any(g[n] != w[n] for n in ("rnt", "rtr", "rps", "rnp"))):
                    bad.append({"type": typ, "api_version": ver, "lists": json.loads(kj), "any_inputs": any_, "first_model_has_any_inputs": first,
                                "started": g, "alone": {n: w[n] for n in ("ok", "rnt", "rtr", "rps", "rnp")}})
    return bad, min(limit, len(keys)) * 5


def c12_algebra(universe):
    from mosaik.in_or_out_set import OutSet

    W = list(universe) + ["z"]
    sets = []
    for k in range(len(universe) + 1):
        for c in itertools.combinations(universe, k):
            sets.append(({"co": False, "s": list(c)}, frozenset(c)))
            sets.append(({"co": True, "s": list(c)}, OutSet(c)))

    def enc(v):
        if isinstance(v, OutSet):
            return {"co": True, "s": sorted(v._set)}
        return {"co": False, "s": sorted(v)}

    rows = []
    import operator

    for xr, x in sets:
        for e in W:
            rows.append({"x": xr, "y": xr, "op": "in", "ok": True, "b": e in x, "e": e, "r": xr})
        for yr, y in sets:
            for op, fn in (("or", operator.or_), ("and", operator.and_), ("sub", operator.sub)):
                try:
                    rows.append({"x": xr, "y": yr, "op": op, "ok": True, "b": False, "e": "z", "r": enc(fn(x, y))})
                except Exception:  # noqa: BLE001
                    rows.append({"x": xr, "y": yr, "op": op, "ok": False, "b": False, "e": "z", "r": xr})
            rows.append({"x": xr, "y": yr, "op": "eq", "ok": True, "b": bool(x == y), "e": "z", "r": xr})
    return rows


def _judge_c12(part):
    rows, algebra, universe = part
    return _judge_rows("Attrs", "R12", {"rows": rows, "algebra": algebra, "universe": list(universe)})


def c12(tier, seed):
    import concurrent.futures as cf

    t0 = time.time()
    universe = ("a", "b") if tier == "quick" else ("a", "b", "c")
    rows = c12_rows(universe)
    algebra = c12_algebra(universe)
    size = 4000 if tier == "quick" else 8000
    parts = [(rows[i:i + size], algebra if i == 0 else [], universe) for i in range(0, len(rows), size)]
    # attribute names are opaque strings: the same enumeration over names that differ only by whitespace / case / a dot
    # (any normalisation of names during classification merges or loses them)
    odd = ("p", "p ") if tier == "quick" else ("p", " p", "P")
    rows2 = c12_rows(odd)
    parts += [(rows2[i:i + size], [], odd) for i in range(0, len(rows2), size)]
    rows3 = c12_rows(("q.x", "q-x"))
    parts += [(rows3[i:i + size], [], ("q.x", "q-x")) for i in range(0, len(rows3), size)]
    rows = rows + rows2 + rows3
    t1 = time.time()
    with cf.ThreadPoolExecutor(max_workers=14) as ex:
        results = list(ex.map(_judge_c12, parts))
    findings, states, trans = [], 0, 0
    for pi, (viol, st, secs) in enumerate(results):
        states += st["distinct"]
        trans += st["generated"]
        nchunks = (len(parts[pi][0]) + 999) // 1000
        for clause, n in viol:
            is_alg = clause.startswith("C12_set_")
            row = (algebra if is_alg else parts[pi][0])[n]
            findings.append(checklib.Finding("C12", clause, case={"id": [clause, pi, n], "kind": "c12", "row": row}, detail=json.dumps(row), extra={"row": row}))
    import collections
    import random as _random

    # through the public path, with a sibling model in the same simulator (oracle: the TLC-judged rows above)
    sib_bad, sib_n = c12_siblings(c12_rows(universe) if False else rows[:len(rows) - len(rows2) - len(rows3)], universe,
                                  1500 if tier == "quick" else 10**9, _random.Random(f"c12sib|{seed}"))
    for b in sib_bad[:50]:
        findings.append(checklib.Finding("C12", "C12_classification_at_start_differs_from_the_description_alone__sibling_model_or_api_version",
                                         case={"id": ["sibling", b["type"], b["lists"], b["any_inputs"], b["first_model_has_any_inputs"]], "kind": "c12", "row": b},
                                         detail=json.dumps(b)[:600], extra={"row": b}))
    cov = {
        "states": states, "transitions": trans, "traces_validated_against_impl": len(rows) + len(algebra) + sib_n,
        "sibling_model_starts": sib_n,
        "samples": [rows[1234], next(r for r in rows if r["ok"] and r["type"] == "hybrid" and r["has"]["tr"]), algebra[17]],
        "evaluations": len(rows) + len(algebra), "distinct_nontrivial": len(rows) + len(algebra),
        "rule": f"every model description with each of attrs / trigger / non-trigger / persistent / non-persistent absent or any subset of {list(universe)} "
                f"x any_inputs x 3 simulator types ({len(rows)} descriptions; real parse_attrs; result sets compared by membership on the universe plus the witness 'z' "
                f"for 'any other attribute'); the same over the name universes {list(odd)} and ['q.x', 'q-x'] (names are opaque); plus {sib_n} simulator starts (World.start) of a description together with a sibling model that differs only in any_inputs, both orders, with a twin model described by the SAME dict object, and after a public model named 'type', announcing API version 3.0 / 3.0.16 / 2.4 / 2.2 / 2.0 / 2; plus every InOrOutSet expression x op y, op in |,&,-,==,in over the finite/co-finite sets over the same universe ({len(algebra)} rows)",
        "exhaustive": True,
        "accepted": sum(1 for r in rows if r["ok"]),
        "record_secs": round(t1 - t0, 1),
        "checker_cmd": "tlc -workers 1 -config Attrs.cfg Attrs (TRACE_FILE=<rows>)",
    }
    return checklib.conclude("C12", tier, seed, findings, cov, t0, ASSUME, max_report=3)


RUN["C12"] = c12


# --------------------------------------------------------------------------- C18


class _ScriptedRandom:
    """Stands in for the ``random`` module inside mosaik.util: choices come from a script
    (list of option indices); the number of options of every decision is recorded."""

    def __init__(self, script):
        self.script = list(script)
        self.n = 0
        self.options = []

    def _next(self, nopts):
        i = self.script[self.n] if self.n < len(self.script) else 0
        self.n += 1
        self.options.append(nopts)
        return i % nopts

    def randint(self, a, b):
        if b < a:
            raise ValueError("empty range for randrange()")
        return a + self._next(b - a + 1)

    def shuffle(self, lst):
        import math

        n = len(lst)
        code = self._next(math.factorial(n))
        items = list(lst)
        out = []
        for i in range(n, 0, -1):
            out.append(items.pop(code % i))
            code //= i
        lst[:] = out


class _RecWorld:
    def __init__(self):
        self.calls = []

    def connect(self, src, dest, *attrs, **kw):
        self.calls.append((src, dest, attrs, kw))


ATTR_FORMS = [("a", ("b", "c")), (), ("a",), (("x", "y"),)]


def _bulk_run(ns, nd, evenly, maxc, rnd, as_float=False, attrs=ATTR_FORMS[0], shape="lists"):
    """shape: how the two entity sets are handed over - "lists" (two lists), "same" (ONE list object as source and
    destination set: entities of one kind connected among themselves; needs ns == nd), "dst_tuple" / "dst_gen" / "dst_keys"
    (the destination set as another iterable; the sources stay a list because evenly=True slices them)."""
    from mosaik import util

    w = _RecWorld()
    src = [f"s{i + 1}" for i in range(ns)]
    dst = [f"d{i + 1}" for i in range(nd)]
    if shape in ("entities", "entities_twin"):
        # the entity sets hold REAL mosaik Entity objects (what World.start(...).Model.create() returns) instead of strings.
        # "entities_twin": the destinations come from two simulators whose ids are chosen so that pairs of DISTINCT entities carry the
        # same full id ('grid' + 'lv.b1' and 'grid.lv' + 'b1') - two destinations are two destinations whatever their ids spell
        from mosaik.scenario import Entity

        src = [Entity("Src-0", f"s{i + 1}", "Src", None, None) for i in range(ns)]
        if shape == "entities":
            dst = [Entity("Dst-0", f"d{i + 1}", "Dst", None, None) for i in range(nd)]
        else:
            dst = [Entity("grid", f"lv.b{i // 2 + 1}", "Grid", None, None) if i % 2 == 0 else Entity("grid.lv", f"b{i // 2 + 1}", "Grid", None, None)
                   for i in range(nd)]
    sidx = {id(o): i + 1 for i, o in enumerate(src)}
    didx = {id(o): i + 1 for i, o in enumerate(dst)}
    if shape == "same":
        assert ns == nd
        dst_arg = src
    elif shape == "dst_tuple":
        dst_arg = tuple(dst)
    elif shape == "dst_gen":
        dst_arg = (d for d in dst)
    elif shape == "dst_keys":
        dst_arg = dict.fromkeys(dst).keys()
    else:
        dst_arg = list(dst)
    saved = util.random
    util.random = rnd
    row = {"ns": ns, "nd": nd, "evenly": evenly, "maxc": maxc, "shape": shape}
    try:
        kw = {"evenly": evenly}
        if maxc:
            # a finite limit may be given as a float (2.0, 4/2, the result of a ceil) - the default itself is the float inf
            kw["max_connects"] = float(maxc) if as_float else maxc
        ret = util.connect_randomly(w, src, dst_arg, *attrs, **kw)
        row.update({"ok": True, "ret": sorted((sidx if shape == "same" else didx)[id(d)] for d in ret)})
        if len(row["ret"]) != len(list(ret)) or len(set(row["ret"])) != len(row["ret"]):
            row["ret"] = row["ret"] + [0]  # (cannot happen for a set of distinct objects; an impossible index makes the table say so)
    except BaseException as e:  # noqa: BLE001
        row.update({"ok": False, "ret": [], "exc": f"{type(e).__name__}: {e}"[:100]})
    finally:
        util.random = saved
    row["calls"] = [[sidx[id(s)], (sidx if shape == "same" else didx)[id(d)]] for s, d, a, k in w.calls]
    row["attrs_ok"] = all(a == tuple(attrs) and not k for s, d, a, k in w.calls)
    return row


def c18_exhaustive(max_ns, max_nd):
    """All choice sequences for small sizes (stateless DFS over the scripted random source)."""
    rows = []
    for ns in range(0, max_ns + 1):
        for nd in range(1, max_nd + 1):
            # (max_connects is only taken into account when evenly is False: with evenly=True a finite limit changes nothing, however small)
            for evenly, maxc, as_float in [(True, 0, False), (True, 1, False), (True, 2, False), (False, 0, False), (False, 1, False), (False, 2, False), (False, 3, False), (False, 2, True)]:
                if not evenly and maxc and ns > nd * maxc:
                    continue
                for shape in ["lists"] + (["same"] if ns == nd else []) + (["dst_tuple", "dst_gen"] if ns <= 2 else []) + (["entities", "entities_twin"] if ns <= 3 and nd >= 2 else []):
                    stack = [[]]
                    while stack:
                        script = stack.pop()
                        rnd = _ScriptedRandom(script)
                        row = _bulk_run(ns, nd, evenly, maxc, rnd, as_float, shape=shape)
                        row["script"] = script
                        rows.append(row)
                        # expand the first decision beyond the script
                        for pos in range(len(script), len(rnd.options)):
                            for alt in range(1, rnd.options[pos]):
                                stack.append(script + [0] * (pos - len(script)) + [alt])
    return rows


def c18(tier, seed):
    import random as pyrandom

    t0 = time.time()
    rows = c18_exhaustive(4 if tier == "quick" else 5, 3)
    nexh = len(rows)
    rng = pyrandom.Random(f"c18|{seed}")
    nseeded = 1500 if tier == "quick" else 20000
    for _ in range(nseeded):
        nd = rng.randint(1, 30)
        evenly = rng.random() < 0.4
        maxc = 0 if (evenly and rng.random() < 0.6) or rng.random() < 0.3 else rng.randint(1, 5)
        ns = rng.randint(0, nd * maxc if maxc and not evenly else 100)
        if maxc and rng.random() < 0.3:
            ns = nd * maxc  # exactly filled (D5)
        shape = rng.choice(["lists", "lists", "dst_tuple", "dst_gen", "dst_keys", "same", "entities", "entities_twin"])
        if shape == "same":
            ns = nd  # one list object as source and destination set
        r = pyrandom.Random(rng.random())
        # (any attribute form, including NO attributes at all - World.connect(src, dest) is a supported call)
        rows.append(_bulk_run(ns, nd, evenly, maxc, r, as_float=bool(maxc) and rng.random() < 0.3, attrs=rng.choice(ATTR_FORMS), shape=shape))
    # connect_many_to_one
    from mosaik import util

    m2o_bad = []
    # the sources are an Iterable: lists, tuples, dictionary views and ONE-SHOT iterators (generator, iter, map, filter, chain)
    shapes = {"list": list, "tuple": tuple, "dict_keys": lambda l: dict.fromkeys(l).keys(), "generator": lambda l: (x for x in l), "iter": iter,
              "map": lambda l: map(str, l), "filter": lambda l: filter(None, l), "chain": lambda l: itertools.chain(l[:1], l[1:])}
    for ns in range(0, 6):
        for asyncr in (False, True):
            for shape, mk in shapes.items():
                w = _RecWorld()
                names = [f"s{i}" for i in range(ns)]
                try:
                    util.connect_many_to_one(w, mk(names), "d", "a", ("b", "c"), async_requests=asyncr)
                    exc = ""
                except Exception as e:  # noqa: BLE001
                    exc = f"{type(e).__name__}: {e}"[:80]
                ok = not exc and [c[0] for c in w.calls] == names and all(
                    c[1] == "d" and c[2] == ("a", ("b", "c")) and c[3] == {"async_requests": asyncr} for c in w.calls)
                if not ok:
                    m2o_bad.append({"ns": ns, "async_requests": asyncr, "shape": shape, "exc": exc, "calls": [list(map(str, c[:2])) for c in w.calls]})
    viol, st, secs = _judge_rows("BulkConnectTable", "R18", rows)
    findings = [checklib.Finding("C18", clause, case={"id": [clause, n], "kind": "c18", "row": rows[n]}, detail=json.dumps(rows[n])[:600], extra={"row": rows[n]})
                for clause, n in viol]
    for n, r in enumerate(rows):
        if r["ok"] and not r["attrs_ok"]:
            findings.append(checklib.Finding("C18", "C18_attribute_pairs_not_passed_through", case={"id": ["attrs", n], "kind": "c18", "row": r}, detail=json.dumps(r)[:300]))
    for b in m2o_bad:
        findings.append(checklib.Finding("C18", "C18_many_to_one_wrong", case={"id": ["m2o", b["ns"]], "kind": "c18", "row": b}, detail=json.dumps(b)))
    # the specification itself: TLC on the nondeterministic process for small constants
    mstates = mtrans = 0
    configs = [(ns, nd, ev, mc) for ns in range(0, 5) for nd in (1, 2, 3) for ev, mc in [(True, 0), (False, 0), (False, 1), (False, 2)]
               if ev or not mc or ns <= nd * mc]
    import concurrent.futures as cf

    def mc_one(cfg):
        ns, nd, ev, mc = cfg
        wd = tlc.scratch()
        try:
            shutil.copy(os.path.join(tlc.SPEC, "BulkConnect.tla"), wd)
            open(os.path.join(wd, "BulkConnect.cfg"), "w").write(
                f"SPECIFICATION Spec\nCONSTANTS NS = {ns} ND = {nd} Evenly = {'TRUE' if ev else 'FALSE'} MaxC = {mc}\n"
                "INVARIANT EachSourceOnce\nINVARIANT Balanced\nINVARIANT Capped\nINVARIANT NeverStuck\nPROPERTY Terminates\nCHECK_DEADLOCK FALSE\n")
            out, secs, rc = tlc.run_tlc("BulkConnect", cfg="BulkConnect.cfg", workdir=wd, workers=1, timeout=300, heap="1g")
        finally:
            shutil.rmtree(wd, ignore_errors=True)
        if "No error has been found" not in out:
            raise tlc.TLCError(f"BulkConnect.tla violates its own invariants for {cfg}\n" + "\n".join(out.splitlines()[-20:]))
        return tlc.stats(out)

    with cf.ThreadPoolExecutor(max_workers=12) as ex:
        for s in ex.map(mc_one, configs):
            mstates += s["distinct"]
            mtrans += s["generated"]
    cov = {
        "states": mstates + st["distinct"], "transitions": mtrans + st["generated"], "traces_validated_against_impl": len(rows),
        "samples": [rows[40], rows[-1]],
        "evaluations": len(rows) + 12, "distinct_nontrivial": len({json.dumps([r["ns"], r["nd"], r["evenly"], r["maxc"], r["calls"]]) for r in rows}),
        "rule": f"connect_randomly with the random source scripted: ALL choice sequences (every randint value, every shuffle permutation) for |src| <= "
                f"{4 if tier == 'quick' else 5}, |dest| <= 3, evenly / max_connects in (unlimited,1,2,3 and 2.0 given as a float) ({nexh} runs, exhaustive) + {nseeded} seeded runs with "
                "|dest| <= 30 incl. exactly-filled capacities; each run's sequence of World.connect calls and returned set is replayed by TLC against BulkConnect's rules; "
                "connect_many_to_one for 0..5 sources x async_requests; the specification itself is model-checked for |src| <= 4, |dest| <= 3; distinct = distinct call sequences",
        "exhaustive": False,
        "model_configs": len(configs),
        "checker_cmd": "tlc -config BulkConnectTable.cfg BulkConnectTable (TRACE_FILE=<rows>); tlc BulkConnect (per constants)",
    }
    return checklib.conclude("C18", tier, seed, findings, cov, t0, ASSUME + ["mosaik.util's random source is replaced by a scripted object (the 'for all seeds' quantifier becomes 'for all choice sequences')"], max_report=3)


RUN["C18"] = c18


# --------------------------------------------------------------------------- C15

C15_FAILS = ["none", "ValueError", "RuntimeError", "KeyError"]
C15_VERSIONS = ["1", "2", "2.0", "2.1", "2.1.9", "2.2", "2.2.0", "2.10", "3", "3.0", "3.0.16", "3.1", "4", "4.0", "10", None]


def _c15_meta(ver, hastype):
    """hastype: False (no type), True (time-based) or the declared type itself."""
    meta = {"models": {"M": {"public": True, "params": [], "attrs": ["i", "p"]}}}
    if ver is not None:
        meta["api_version"] = ver
    if hastype:
        meta["type"] = "time-based" if hastype is True else hastype
    meta["extra_methods"] = ["setup", "done", "foo"]
    return meta


def _c15_explicit(ver, mode):
    if mode == "absent":
        return None
    if mode == "equal":
        return ver if ver is not None else "1"
    return "2.5" if (ver or "1") != "2.5" else "2.6"


def _c15_inproc(ver, explicit, kind, hastype, fail=None, time_resolution=None):
    import contextlib
    import io
    import warnings

    import mosaik
    from harness import stubs, vloop
    from mosaik.exceptions import ScenarioError

    stubs.CONFIG["meta"] = _c15_meta(ver, hastype)
    stubs.CONFIG["fail"] = fail
    del stubs.LOG[:]
    cfg = {"python": "harness.stubs:" + {"inproc_v3": "V3SigDefault", "inproc_v3_kwonly": "V3SigKwOnly", "inproc_v3_kwargs": "V3SigKwargs", "inproc_v3_sub": "V3SigOfOld",
                                         "inproc_old_sub": "OldSigOfV3"}.get(kind, "OldSig")}
    exp = _c15_explicit(ver, explicit)
    if exp:
        cfg["api_version"] = exp
    loop = vloop.VLoop()
    import asyncio

    asyncio.set_event_loop(loop)
    res = {"out": "ok", "msg": ""}
    try:
        with contextlib.redirect_stdout(io.StringIO()), warnings.catch_warnings(record=True):
            warnings.simplefilter("always")
            world = mosaik.World({"S": cfg}, asyncio_loop=loop, skip_greetings=True, **({"time_resolution": time_resolution} if time_resolution else {}))
            try:
                fac = world.start("S", sim_id="Sa")
                res["type_seen"] = fac.type
                # extra methods are a request kind of their own: every call reaches the simulator unchanged and returns its result
                want = [["setup", [1], {}], ["done", [], {"x": 2}], ["foo", ["a", 3], {"y": None}]]
                got = [fac.setup(1), fac.done(x=2), fac.foo("a", 3, y=None)]
                res["extra_ok"] = got == want and [x for x in stubs.LOG if x[0] in ("setup", "done", "foo")] == want
                fac.M()
                if hastype == "event-based":
                    world.set_initial_event("Sa", 0)
                world.run(until=3, print_progress=False)
            except ScenarioError as e:
                res["out"], res["msg"] = "ScenarioError", str(e)[:150]
            except BaseException as e:  # noqa: BLE001
                res["out"], res["msg"] = "other", f"{type(e).__name__}: {e}"[:150]
            finally:
                try:
                    world.shutdown()
                except BaseException:  # noqa: BLE001
                    pass
    finally:
        asyncio.set_event_loop(None)
    log = [list(x) for x in stubs.LOG]
    res["log"] = log
    return res


def _c15_remote(ver, explicit, hastype):
    from harness import behave, drive

    meta = _c15_meta(ver, hastype)
    meta["models"]["M"]["attrs"] = ["i", "i2", "p", "p2"]
    sim = {"sid": "Sa", "type": "time-based", "transport": "remote", "meta": meta, "initev": hastype == "event-based"}
    exp = _c15_explicit(ver, explicit)
    if exp:
        sim["api_version"] = exp
    scn = {"sims": [sim, {"sid": "Sb", "type": "time-based"}], "conns": [{"src": "Sa", "dst": "Sb", "sa": "p", "da": "i"}], "until": 3}
    import warnings

    with warnings.catch_warnings(record=True):
        ctx = drive.execute(scn, behave.RandomBehaviour(1, tb_next=(1,)), behave.FifoPolicy())
    res = {"out": "ok", "msg": ""}
    o = ctx.outcome
    if o["r"] == "ScenarioError":
        res["out"], res["msg"] = "ScenarioError", o["msg"][:150]
    elif o["r"] != "ok":
        res["out"], res["msg"] = "other", (o["r"] + ": " + o["msg"])[:150]
    res["log"] = ctx.stubs["Sa"].requests if "Sa" in ctx.stubs else []
    res["type_seen"] = ctx.world.sims["Sa"].type if ctx.world is not None and "Sa" in ctx.world.sims else ""
    res["obs"] = _obs(ctx)
    return res


def c15_rows():
    rows = []
    # the run of a current-version (3.0) simulator of the same declared type is what an older one must see as well
    refs_remote = {t: _c15_remote("3.0", "absent", t) for t in (True, "event-based", "hybrid")}
    refs_inproc = {t: _c15_inproc("3.0", "absent", "inproc_v3", t) for t in (True, "event-based", "hybrid")}
    ref_remote, ref_inproc = refs_remote[True], refs_inproc[True]

    def steps(log):
        return [x[1][0] for x in log if x[0] == "step"]

    ref_fail = {exc: _c15_inproc("3.0", "absent", "inproc_v3", True, fail=[2, exc]) for exc in C15_FAILS if exc != "none"}
    for ver in C15_VERSIONS:
        for explicit in ("absent", "equal", "different"):
            # (the *_sub kinds are classes DERIVED from a class of the opposite kind that was started before them in this process)
            for kind in ("remote", "inproc_v3", "inproc_v3_kwonly", "inproc_v3_kwargs", "inproc_old", "inproc_old_sub", "inproc_v3_sub"):
                for hastype, fail in [(True, "none"), (False, "none"), ("event-based", "none"), ("hybrid", "none")] + ([(True, e) for e in C15_FAILS if e != "none"] if kind != "remote" and explicit == "absent" else []):
                    if fail != "none":
                        # the simulator's own step raises at its second call: the adapter must not turn that into further requests
                        r = _c15_inproc(ver, explicit, kind, hastype, fail=[2, fail])
                        log = r["log"]
                        st_ = [x for x in log if x[0] == "step"]
                        rows.append({
                            "v": [int(x) for x in ver.split(".")] if ver is not None else [1], "hasv": ver is not None, "vs": ver or "",
                            "explicit": explicit, "kind": kind, "hastype": bool(hastype), "decl_type": "time-based", "out": r["out"], "msg": r["msg"], "fail": fail,
                            "init_tr": True, "setup_done": True, "step_nargs": 0, "type_seen": r.get("type_seen", ""), "extra_ok": bool(r.get("extra_ok", True)),
                            "nargs_all": sorted({len(x[1]) for x in st_}),
                            "sameobs": steps(log) == steps(ref_fail[fail]["log"]), "failed_as_injected": r["out"] == "other" and "injected failure" in r["msg"],
                            "requests": [x[0] for x in log][:12],
                        })
                        continue
                    # (half of the in-process rows run in a World whose time_resolution is not the default: what an old simulator
                    #  is sent must not depend on the VALUE of an argument it cannot take)
                    tr = 0.5 if (C15_VERSIONS.index(ver) + len(explicit) + len(kind)) % 2 else None
                    r = _c15_remote(ver, explicit, hastype) if kind == "remote" else _c15_inproc(ver, explicit, kind, hastype, time_resolution=tr)
                    log = r["log"]
                    init = next((x for x in log if x[0] == "init"), None)
                    step = next((x for x in log if x[0] == "step"), None)
                    rkey = hastype if hastype in refs_remote else True
                    if kind == "remote":
                        init_tr = bool(init) and "time_resolution" in init[2]
                        same = r["out"] != "ok" or {s: [[t, i] for t, i in v] for s, v in r["obs"].items()} == refs_remote[rkey]["obs"]
                    else:
                        init_tr = bool(init) and bool(init[2].get("__got_time_resolution__"))
                        same = r["out"] != "ok" or steps(log) == steps(refs_inproc[rkey]["log"])
                    rows.append({
                        "v": [int(x) for x in ver.split(".")] if ver is not None else [1], "hasv": ver is not None, "vs": ver or "",
                        "explicit": explicit, "kind": kind, "hastype": bool(hastype), "decl_type": "" if not hastype else ("time-based" if hastype is True else hastype),
                        "out": r["out"], "msg": r["msg"],
                        "init_tr": init_tr, "setup_done": any(x[0] == "setup_done" for x in log),
                        "step_nargs": len(step[1]) if step else 0, "type_seen": r.get("type_seen", ""), "sameobs": bool(same),
                        "fail": "none", "nargs_all": sorted({len(x[1]) for x in log if x[0] == "step"}), "failed_as_injected": False,
                        "extra_ok": bool(r.get("extra_ok", True)),
                        "requests": [x[0] for x in log][:12],
                    })
    return rows


def c15(tier, seed):
    t0 = time.time()
    rows = c15_rows()
    viol, st, secs = _judge_rows("Adapters", "R15", rows)
    findings = [checklib.Finding("C15", clause, case={"id": [clause, n], "kind": "c15", "row": rows[n]}, detail=json.dumps(rows[n])[:500], extra={"row": rows[n]})
                for clause, n in viol]
    import collections

    cov = {
        "states": st["distinct"], "transitions": st["generated"], "traces_validated_against_impl": len(rows),
        "samples": [rows[3], next(r for r in rows if r["out"] == "ok" and r["vs"] == "2.1" and r["kind"] == "remote")],
        "evaluations": len(rows), "distinct_nontrivial": len(rows),
        "rule": f"api_version in {C15_VERSIONS} x explicit api_version (absent / equal / different) x (remote stub behind the shipped RemoteProxy over fake streams, "
                "in-process stub with v3 signatures in three legal shapes (time_resolution positional-or-keyword / keyword-only without **kwargs / only **kwargs), in-process stub with old signatures, and each kind once more as a class derived from a class of the OTHER kind that was started earlier in the process) x meta without type / with type time-based, event-based, hybrid x World time_resolution 1.0 / 0.5 (in-process rows) x (in-process) three extra-method calls x the stub's second step raising ValueError / RuntimeError / KeyError; each row = world.start + create + run(until=3) "
                "with the exact requests the stub received; compared with the run of a 3.0 stub",
        "exhaustive": True,
        "outcomes": dict(collections.Counter((r["kind"], r["out"]) .__str__() for r in rows)),
        "checker_cmd": "tlc -config Adapters.cfg Adapters (TRACE_FILE=<rows>)",
    }
    return checklib.conclude("C15", tier, seed, findings, cov, t0, ASSUME + ["malformed version strings (e.g. '3.x') are outside the quantifier"], max_report=3)


RUN["C15"] = c15

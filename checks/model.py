"""Model part of the scheduling checks: TLC on the implementation-shaped specification
MosaikSched (S), and the binding of (S) to the code in both directions.

  spec -> code : edge-covering paths of TLC's state graph are projected to reply schedules
                 and replayed into the real scheduler (harness/mc.py, behave.ModelBehaviour).
  code -> spec : every replayed execution is recorded at its atomic sections and validated
                 against the actions of (S) (SchedTrace.tla), and at the API boundary against
                 the reference semantics (RefTrace.tla, done by the caller).
A rejection by SchedTrace is DRIFT (code and model differ), never a verdict by itself.
"""
from __future__ import annotations

import concurrent.futures as cf
import json
import os
import shutil
import time

from harness import explore, mc, scn as S, tlc

os.environ.setdefault("MOSAIK_VERIF_TRACE", "1")


def _hy(sid, gpath=()):
    return {"sid": sid, "type": "hybrid", "gpath": list(gpath)}


def _tb(sid, gpath=()):
    return {"sid": sid, "type": "time-based", "gpath": list(gpath)}


def _eb(sid, gpath=(), initev=False):
    return {"sid": sid, "type": "event-based", "gpath": list(gpath), "initev": initev}


def _c(src, dst, sa, da, **kw):
    d = {"src": src, "dst": dst, "sa": sa, "da": da}
    d.update(kw)
    return d


# name -> (scenario, kwargs for mc.write_mc)
MODELS = {
    # two hybrid simulators: trigger + measurement forward, shifted(2) measurement with initial data back
    "pair_data": ({"sims": [_hy("Sa"), _hy("Sb")],
                   "conns": [_c("Sa", "Sb", "e", "ti"), _c("Sa", "Sb", "p", "i"), _c("Sb", "Sa", "p", "i", shift=2, init=True)],
                   "until": 3}, {}),
    # time-based -> hybrid -> time-based chain with a shifted feedback
    "chain3": ({"sims": [_tb("Sa"), _hy("Sb"), _tb("Sc")],
                "conns": [_c("Sa", "Sb", "p", "i"), _c("Sb", "Sc", "p", "i"), _c("Sc", "Sa", "p", "i", shift=1, init=True)],
                "until": 3}, {"next_offs": (1, 2)}),
    # same-time (weak) loop in a group, feeding and fed by a root simulator
    "weakloop": ({"sims": [_hy("Sa", [1]), _hy("Sb", [1]), _tb("Sc")],
                  "conns": [_c("Sa", "Sb", "e", "ti"), _c("Sb", "Sa", "e", "ti", weak=True), _c("Sc", "Sa", "p", "i"),
                            _c("Sb", "Sc", "p", "i", shift=1, init=True)],
                  "until": 2, "maxloop": 2}, {"data_hist": False, "cause_hist": False}),
    # a same-time loop in one group, a consumer in a SIBLING group
    "siblings": ({"sims": [_eb("Sa", [1], True), _eb("Sb", [1]), _eb("Sc", [2])],
                  "conns": [_c("Sa", "Sb", "e", "ti"), _c("Sb", "Sa", "e", "ti", weak=True), _c("Sb", "Sc", "e2", "ti")],
                  "until": 2, "maxloop": 2}, {"next_offs": (0, 1), "fut_offs": (0,)}),
    # two trigger connections with different delays between the same pair
    "two_delays": ({"sims": [_hy("Sa"), _eb("Sb")],
                    "conns": [_c("Sa", "Sb", "e", "ti"), _c("Sa", "Sb", "e2", "ti2", shift=1)],
                    "until": 3}, {"next_offs": (0, 1), "fut_offs": (0,)}),
    # trigger chain with an unrelated simulator (ancestor in flight while others finish)
    "trigger_chain": ({"sims": [_hy("Sa"), _eb("Sb"), _eb("Sc"), _tb("Sd")],
                       "conns": [_c("Sa", "Sb", "e", "ti"), _c("Sb", "Sc", "e", "ti", shift=1)],
                       "until": 2}, {"next_offs": (0, 1), "fut_offs": (0,), "data_hist": False}),
    # self-triggering loop through another simulator (max_advance windows)
    "trigger_loop": ({"sims": [_hy("Sa"), _hy("Sb")],
                      "conns": [_c("Sa", "Sb", "e", "ti"), _c("Sb", "Sa", "e", "ti", shift=1)],
                      "until": 3}, {"next_offs": (0, 2), "fut_offs": (0,), "data_hist": False}),
    # fast producer, slow consumers (fan-out)
    "fanout": ({"sims": [_tb("Sa"), _tb("Sb"), _hy("Sc")],
                "conns": [_c("Sa", "Sb", "p", "i"), _c("Sa", "Sc", "p", "i")],
                "until": 3}, {"next_offs": (0, 1, 2), "fut_offs": (0,), "cause_hist": False}),
    # events announced for times at/after the end, future-dated outputs
    "future": ({"sims": [_eb("Sa", (), True), _eb("Sb"), _hy("Sc")],
                "conns": [_c("Sa", "Sb", "e", "ti", shift=2), _c("Sc", "Sb", "e", "ti2")],
                "until": 2}, {"next_offs": (0, 1), "fut_offs": (0, 1, 2)}),
    # initial events at LATER times, two for one simulator (World.set_initial_event adds a step, it does not replace the pending ones)
    "initial_events": ({"sims": [dict(_hy("Sa"), initevs=[2]), dict(_eb("Sb"), initevs=[2, 1])],
                        "conns": [_c("Sa", "Sb", "e", "ti")],
                        "until": 3}, {"next_offs": (0, 1), "fut_offs": (0,)}),
    # a server of asynchronous requests with one agent
    "async": ({"sims": [_tb("Sa"), _tb("Sb")],
               "conns": [{"src": "Sa", "dst": "Sb", "sa": "p", "da": "i", "async": True}],
               "until": 3}, {"next_offs": (1, 2), "fut_offs": (0,), "agents": [("Sb", "Sa", "i2")], "cause_hist": False}),
    # malformed replies
    "faults": ({"sims": [_tb("Sa"), _hy("Sb"), _eb("Sc")],
                "conns": [_c("Sa", "Sb", "p", "i"), _c("Sb", "Sc", "e", "ti", shift=1)],
                "until": 2}, {"next_offs": (0, 1), "fut_offs": (0,), "faults": True, "cause_hist": False}),
    # event and measurement into one entity from two sources, sparse events
    "two_sources": ({"sims": [_tb("Sa"), _eb("Sb", (), True), _hy("Sc")],
                     "conns": [_c("Sa", "Sc", "p", "i"), _c("Sb", "Sc", "e", "ti")],
                     "until": 3}, {"next_offs": (0, 1, 2), "fut_offs": (0, 1), "cause_hist": False}),
}

# property -> [(model name, scenario overrides)]
CONFIGS = {
    "C01": [("pair_data", {}), ("siblings", {}), ("weakloop", {}), ("two_delays", {"lazy": False}), ("async", {})],
    "C02": [("pair_data", {"lazy": False}), ("future", {}), ("two_delays", {}), ("trigger_chain", {"lazy": False}), ("siblings", {"lazy": False}), ("initial_events", {})],
    "C03": [("pair_data", {}), ("pair_data", {"cache": False}), ("chain3", {}), ("chain3", {"cache": False, "lazy": False}),
            ("two_sources", {}), ("two_sources", {"cache": False})],
    "C05": [("future", {}), ("future", {"lazy": False}), ("two_delays", {}), ("trigger_chain", {}), ("weakloop", {"lazy": False})],
    "C07": [("trigger_loop", {}), ("trigger_chain", {}), ("two_delays", {}), ("pair_data", {"lazy": False}), ("initial_events", {})],
    "C09": [("siblings", {}), ("siblings", {"maxloop": 1}), ("weakloop", {"maxloop": 1})],
    "C10": [("fanout", {}), ("chain3", {}), ("pair_data", {}), ("async", {})],
    "C13": [("faults", {}), ("faults", {"lazy": False, "cache": False})],
    "C16": [("async", {}), ("async", {"lazy": False, "cache": False})],
}
THOROUGH_EXTRA = {
    "C01": [("weakloop", {"until": 3}), ("siblings", {"until": 3, "maxloop": 3})],
    "C02": [("future", {"until": 3}), ("trigger_chain", {"until": 3})],
    "C03": [("pair_data", {"until": 4}), ("chain3", {"until": 4}), ("two_sources", {"until": 4})],
    "C05": [("weakloop", {"until": 3}), ("future", {"until": 3}), ("trigger_chain", {"until": 3})],
    "C07": [("trigger_loop", {"until": 4}), ("trigger_chain", {"until": 3})],
    "C09": [("weakloop", {"maxloop": 3, "until": 2})],
    "C10": [("fanout", {"until": 4})],
    "C13": [("faults", {"until": 3})],
    "C16": [("async", {"until": 4})],
}
EXTRA_BUDGET = int(os.environ.get("VERIF_MODEL_BUDGET", "600"))  # seconds of TLC per thorough-extra config
DUMP_LIMIT = {"quick": 2500, "thorough": 12000}
REPLAY_LIMIT = {"quick": 250, "thorough": 2500}


def _one(args):
    name, over, tier, liveness, extra = args
    base, kw = MODELS[name]
    scn = dict(base)
    scn.update(over)
    scn = S.normalize(scn)
    if extra:
        # the larger bounds of the thorough tier: breadth-first under TLC's own time budget (states explored and
        # states left on the queue are reported; an invariant violation found within the budget still counts)
        res = mc.check(scn, workers=4, timeout=EXTRA_BUDGET + 600, coverage=False, stop_after=EXTRA_BUDGET, **kw)
    else:
        res = mc.check(scn, workers=4, timeout=1800, coverage=tier == "thorough", **kw)
    if res["ok"] and res["states"] <= DUMP_LIMIT[tier]:
        # small enough: dump the labelled state graph (spec -> code replay, per-action edge counts)
        res2 = mc.check(scn, workers=2, timeout=900, dump=True, coverage=False, **kw)
        res["dot"], res["wd"] = res2["dot"], res2["wd"]
    res.update({"model": name, "overrides": over, "scn": scn, "kw": kw})
    if liveness and res["ok"] and res["states"] <= 60000:
        lv = mc.check(scn, workers=4, timeout=900, coverage=False, liveness=True, **kw)
        res["liveness"] = {"ok": lv["ok"], "states": lv["states"], "violated": lv.get("violated")}
    return res


WAKE_MODEL_PROPS = ("C01", "C05")


def wake_model(tier):
    """TLC on ProgressWake (the wake-up layer below MosaikSched): the invariants hold, and the negative control
    (set() resolves only the first matching call) violates NoLostWakeup."""
    out, secs, rc = tlc.run_tlc("MCProgressWake", cfg="MCProgressWake.cfg", workers=4, timeout=900)
    ok = "No error has been found" in out
    nout, nsecs, nrc = tlc.run_tlc("MCProgressWake", cfg="MCProgressWakeNeg.cfg", workers=2, timeout=300)
    neg = "Invariant NoLostWakeup is violated" in nout
    res = {"module": "ProgressWake (MCProgressWake.cfg)", "ok": ok, "states": tlc.stats(out)["distinct"], "secs": round(secs, 1),
           "invariants": ["NoLostWakeup", "SoundResult", "ExactlyOnce", "CancelledAreParked", "Monotone"],
           "negative_control_EagerOnly_violates_NoLostWakeup": neg}
    res["tlaps_proof"] = wake_proof()
    if not ok:
        print("MODEL-COUNTEREXAMPLE model=ProgressWake (specification only)")
    if not neg:
        print("MACHINERY negative control of ProgressWake did not fail")
    return res


def wake_proof():
    """TLAPS: NoLostWakeup (+ domains) and the soundness of resolved values are INDUCTIVE invariants of ProgressWake for
    arbitrary owners, tiered times, delays and callers (spec/ProgressWakeProof.tla).  A proof, not a verdict on the code:
    a failure is reported in the evidence and as a MODEL-PROOF line, the exit code is unaffected."""
    import re
    import subprocess

    if not shutil.which("tlapm"):
        return {"ran": False, "why": "tlapm not on PATH"}
    wd = tlc.scratch()
    try:
        for f in ("ProgressWakeProof.tla", "ProgressWake.tla", "Tiered.tla"):
            shutil.copy(os.path.join(tlc.SPEC, f), wd)
        t0 = time.time()
        try:
            p = subprocess.run(["tlapm", "ProgressWakeProof.tla"], cwd=wd, capture_output=True, text=True, timeout=600)
            out = p.stdout + p.stderr
        except subprocess.TimeoutExpired:
            out = "timeout"
        m = re.search(r"All (\d+) obligations proved", out)
        res = {"ran": True, "module": "ProgressWakeProof", "theorems": ["InitInv", "StepInv (Dom /\\ NoLostWakeup inductive)", "InitSound", "StepSound (resolved values satisfy the caller's relation)"],
               "all_proved": bool(m), "obligations": int(m.group(1)) if m else 0, "secs": round(time.time() - t0, 1)}
        if not m:
            res["tail"] = out[-300:]
            print("MODEL-PROOF tlapm did not prove every obligation of ProgressWakeProof (specification only; not a verdict)")
        return res
    finally:
        shutil.rmtree(wd, ignore_errors=True)


def _wake_layer(cov, results, label):
    """code -> spec for the wake-up layer on executions that carry a 'wake' record; counts go to cov, rejections are drift."""
    try:
        verdicts, info = mc.validate_wake(results)
    except tlc.TLCError as e:
        verdicts = [{"accepted": False, "at": 0, "what": "ProgressTrace gave no verdict: " + str(e).splitlines()[0][:120]} for _ in results]
        info = {"states": 0, "generated": 0, "secs": 0.0, "events": 0}
    w = cov.setdefault("wake_up_layer", {"traces_accepted": 0, "traces_rejected": 0, "traces_unavailable": 0, "calls_validated": 0, "states": 0, "drift": []})
    w["calls_validated"] += info.get("events", 0)
    w["states"] += info["states"]
    for r, v in zip(results, verdicts):
        r.pop("wake", None)
        if v["accepted"] is None:
            w["traces_unavailable"] += 1
            if len(w["drift"]) < 3 and "too long" not in v["what"]:
                w["drift"].append({"where": label, "at": 0, "what": v["what"]})
        elif v["accepted"]:
            w["traces_accepted"] += 1
        else:
            w["traces_rejected"] += 1
            if len(w["drift"]) < 5:
                w["drift"].append({"where": label, "at": v["at"], "what": v["what"]})
    return w


def model_part(prop, tier, seed):
    cfgs = [(n, o, False) for n, o in CONFIGS.get(prop, [])]
    if tier == "thorough":
        cfgs += [(n, o, True) for n, o in THOROUGH_EXTRA.get(prop, [])]
    liveness = prop == "C05"
    with cf.ThreadPoolExecutor(max_workers=4) as ex:
        results = list(ex.map(_one, [(n, o, tier, liveness, x) for n, o, x in cfgs]))
    cov = {"states": 0, "transitions": 0, "configs": [], "drift": [], "graph_edges": 0, "graph_edges_covered_by_replay": 0,
           "replayed": 0, "replay_deviations": 0, "internal_traces_accepted": 0, "internal_traces_rejected": 0,
           "vacuous_actions": [], "model_counterexamples": []}
    extra_pairs = []
    for res in results:
        wd = res.pop("wd", None)
        dot = res.pop("dot", None)
        entry = {"model": res["model"], "overrides": res["overrides"], "ok": res["ok"], "states": res["states"],
                 "transitions": res["transitions"], "secs": res["secs"], "actions": res.get("actions", {}),
                 "exhaustive": res.get("exhaustive", res["ok"]), "left_on_queue": res.get("left_on_queue", 0)}
        if "liveness" in res:
            entry["liveness"] = res["liveness"]
            if not res["liveness"]["ok"]:
                cov["model_counterexamples"].append({"model": res["model"], "violated": "Termination"})
        cov["states"] += res["states"]
        cov["transitions"] += res["transitions"]
        if not res["ok"]:
            cov["model_counterexamples"].append({"model": res["model"], "overrides": res["overrides"],
                                                 "violated": res.get("violated"), "trace": res.get("trace"), "error": res.get("error")})
        try:
            if res["ok"] and dot and os.path.exists(dot) and res["states"] <= DUMP_LIMIT[tier]:
                nodes, edges, init = mc.parse_dot(dot)
                import collections

                res["actions"] = entry["actions"] = dict(collections.Counter(e[2].split("(")[0] for e in edges))
                paths, total, covered = mc.cover_paths(edges, init)
                exts = {}
                for p in paths:
                    ext = mc.externals(p)
                    exts.setdefault(json.dumps(ext), ext)
                keys = sorted(exts)
                import random

                random.Random(f"replay|{seed}|{res['model']}").shuffle(keys)
                keys = keys[: REPLAY_LIMIT[tier]]
                cases = []
                for i, k in enumerate(keys):
                    c = mc.case_from_externals(res["scn"], exts[k], ["model", res["model"], res["overrides"], i])
                    c["internal"] = True
                    cases.append(c)
                pairs = explore.run_cases(cases)
                if any(r["outcome"].get("phase") == "build" for _, r in pairs):
                    raise RuntimeError(f"model scenario {res['model']} cannot be built on the real World: {pairs[0][1]['outcome']}")
                entry.update({"graph_edges": total, "distinct_external_schedules": len(exts), "replayed": len(pairs)})
                cov["graph_edges"] += total
                cov["replayed"] += len(pairs)
                cov["replay_deviations"] += sum(1 for _, r in pairs if r["deviations"] or r.get("unscripted"))
                try:
                    verdicts, info = mc.validate_internal(res["scn"], [r for _, r in pairs], **res["kw"])
                except tlc.TLCError as e:
                    verdicts = [{"accepted": False, "at": 0, "what": "SchedTrace gave no verdict: " + str(e).splitlines()[0][:120]} for _ in pairs]
                    info = {"states": 0, "generated": 0, "secs": 0.0}
                acc = sum(1 for v in verdicts if v["accepted"])
                cov["internal_traces_accepted"] += acc
                cov["internal_traces_rejected"] += len(verdicts) - acc
                cov["states"] += info["states"]
                cov["transitions"] += info["generated"]
                for (c, r), v in zip(pairs, verdicts):
                    if not v["accepted"] and len(cov["drift"]) < 5:
                        cov["drift"].append({"model": res["model"], "overrides": res["overrides"], "at": v["at"], "what": v["what"],
                                             "schedule": c["policy"]["script"][:20]})
                _wake_layer(cov, [r for _, r in pairs], res["model"])
                for c, r in pairs:
                    r.pop("internal", None)
                extra_pairs += pairs
        finally:
            if wd:
                shutil.rmtree(wd, ignore_errors=True)
        if res.get("actions"):
            for a in ("Start", "Settle", "Finish", "BeginStep", "StepReturn", "DataReturn", "End"):
                if res["actions"].get(a, 0) == 0 and not (a == "DataReturn" and not any(c["data"] for c in res["scn"]["conns"])):
                    cov["vacuous_actions"].append([res["model"], a])
        cov["configs"].append(entry)
    cov["model_transferable"] = cov["internal_traces_rejected"] == 0 and not cov["model_counterexamples"]
    if prop in WAKE_MODEL_PROPS:
        cov["wake_up_model"] = wake_model(tier)
        cov["states"] += cov["wake_up_model"]["states"]
    for d in cov["drift"]:
        print(f"DRIFT model={d['model']} at={d['at']} what={d['what']} (code and specification MosaikSched differ; not a verdict)")
    for d in cov.get("wake_up_layer", {}).get("drift", []):
        print(f"DRIFT wake-up layer where={d['where']} at={d['at']} what={d['what']} (mosaik/progress.py and specification ProgressWake differ; not a verdict)")
    for m in cov["model_counterexamples"]:
        print(f"MODEL-COUNTEREXAMPLE model={m['model']} violated={m.get('violated')} (specification only; reproduced on the code only if a VIOLATION line follows)")
    return cov, extra_pairs


# ---------------------------------------------------------------------------
# conformance of (S) beyond the hand-picked configs: internal traces of RANDOM scenarios


def modellable(scn):
    """Scenarios inside the modelling assumptions of MosaikSched: one entity per simulator, no two
    connections into the same destination slot from the same source entity (the slot would be ambiguous)."""
    seen = set()
    if scn.get("eid_suffix"):
        return False  # (the model's provenance tokens name the one entity "E0")
    for s in scn["sims"]:
        if s.get("nent", 1) != 1:
            return False
    for c in scn["conns"]:
        key = (c["src"], c["dst"], c["se"], c["de"], c["da"])
        if c["data"] and key in seen:
            return False
        seen.add(key)
    return True


def random_conformance(prop, tier, seed, fam=None):
    """Sample scenarios of the random family, run them under several schedules with internal tracing and
    validate every atomic section against the actions of MosaikSched (one TLC run per scenario variant)."""
    import concurrent.futures as cf
    import random

    from harness import families

    nscn = 40 if tier == "quick" else 400
    rng = random.Random(f"rconf|{prop}|{seed}")
    jobs = []
    tries = 0
    while len(jobs) < nscn and tries < nscn * 20:
        tries += 1
        sd = rng.randrange(10**9)
        scn = families.random_scenario(random.Random(f"scn|{sd}"), **(fam or {}))
        if not modellable(scn) or not scn["conns"]:
            continue
        lazy, cache = rng.random() < 0.5, rng.random() < 0.5
        v = dict(scn, lazy=lazy, cache=cache)
        cases = [{"id": ["rconf", sd, lazy, cache, j], "scn": v, "seed": sd * 7 + j, "behaviour": {"kind": "random", "seed": sd},
                  "policy": {"kind": "random", "early": [0.0, 0.3, 0.7][j % 3]}, "internal": True} for j in range(4 if tier == "quick" else 8)]
        jobs.append((v, cases))
    pairs_all, stats = [], {"scenarios": 0, "traces": 0, "accepted": 0, "rejected": 0, "states": 0, "transitions": 0, "skipped": 0, "drift": []}

    # executions run in worker PROCESSES (the harness keeps per-execution global state); only TLC runs in threads
    flat = explore.run_cases([c for _, cases in jobs for c in cases])
    pos = 0
    jobs2 = []
    for v, cases in jobs:
        jobs2.append((v, flat[pos:pos + len(cases)]))
        pos += len(cases)

    def one(job):
        v, pairs = job
        if any(r["outcome"].get("phase") == "build" or r["outcome"]["r"] == "ScenarioError" for _, r in pairs):
            return v, pairs, None, None
        try:
            verdicts, info = mc.validate_internal(v, [r for _, r in pairs], next_offs=(0, 1, 2, 3), fut_offs=(0, 1, 2), timeout=240)
        except tlc.TLCError as e:
            # the search for a behaviour of (S) that explains the recorded sections did not finish (or could not be evaluated):
            # code and model differ - drift, never a verdict and never a failure of the check
            verdicts = [{"accepted": False, "at": 0, "what": "SchedTrace gave no verdict: " + str(e).splitlines()[0][:120]} for _ in pairs]
            info = {"states": 0, "generated": 0, "secs": 0.0}
        return v, pairs, verdicts, info

    with cf.ThreadPoolExecutor(max_workers=8) as ex:
        for v, pairs, verdicts, info in ex.map(one, jobs2):
            if verdicts is None:
                stats["skipped"] += 1
                continue
            stats["scenarios"] += 1
            stats["states"] += info["states"]
            stats["transitions"] += info["generated"]
            for (c, r), vd in zip(pairs, verdicts):
                stats["traces"] += 1
                stats["accepted" if vd["accepted"] else "rejected"] += 1
                if not vd["accepted"] and len(stats["drift"]) < 5:
                    stats["drift"].append({"scn": v, "at": vd["at"], "what": vd["what"], "delivered": r["delivered"][:30], "outcome": r["outcome"]})
                r.pop("internal", None)
            pairs_all += pairs
    # the wake-up layer of the same executions (one TLC run per 400 executions, any scenarios)
    wcov = {}
    rs = [r for _, r in pairs_all]
    for i in range(0, len(rs), 400):
        _wake_layer(wcov, rs[i:i + 400], "random-scenario conformance")
    stats["wake_up_layer"] = wcov.get("wake_up_layer", {})
    stats["states"] += stats["wake_up_layer"].get("states", 0)
    for d in stats["wake_up_layer"].get("drift", []):
        print(f"DRIFT wake-up layer where={d['where']} at={d['at']} what={d['what']} (mosaik/progress.py and specification ProgressWake differ; not a verdict)")
    for d in stats["drift"]:
        print(f"DRIFT random-scenario conformance at={d['at']} what={d['what']} (code and specification MosaikSched differ; not a verdict)")
    return stats, pairs_all

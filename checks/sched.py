"""Checks of the scheduling properties C01 C02 C03 C05 C07 C09 C10 C13 C16.

Pipeline of every check (DESIGN.md §2, §4):
  1. TLC explores the implementation-shaped specification MosaikSched (S) exhaustively on the
     configs of the property's family; the clauses of the reference semantics MosaikRef (R) are
     invariants of (S).  (checks/model.py)
  2. spec -> code: TLC behaviours are replayed into the real scheduler (checks/model.py).
  3. exploration of the real scheduler: directed cases, seeded random scenario/behaviour/schedule
     families, the repository's own scenarios under many schedules.
  4. code -> spec: every real execution of 2 and 3 is judged by TLC against (R) (RefTrace.tla);
     only clauses of THIS property produce a verdict.
"""
from __future__ import annotations

import json
import random
import time

from harness import checklib, directed, explore, families, sched_checks, scn as S

# --------------------------------------------------------------------------- generators


def gen_c13(seed, fam=None, policy=None):
    """One compliant random scenario, one malformed reply at a chosen simulator / step."""
    rng = random.Random(f"c13|{seed}")
    scn = families.random_scenario(rng, **(fam or {}))
    scn["lazy"], scn["cache"] = rng.random() < 0.5, rng.random() < 0.5
    sim = rng.choice(scn["sims"])
    sid, typ = sim["sid"], sim["type"]
    has_out = any(c["src"] == sid and c["sa"] for c in scn["conns"])
    step_faults = [["rel", 0], ["rel", -1], ["abs", -1], ["abs", 1.5], ["abs", "2"], ["list_rel", 1], ["rel", 1.5], ["frac", [3, 2]], ["frac", [1, 2]],
                   ["dec", 1.5], ["cplx", 1]]
    if typ == "time-based":
        step_faults.append(["none"])
    data_faults = [["time_rel", -1], ["time_abs", -1], ["time_only_rel", -1], ["time_only_rel", -2]]
    choices = [("step", h) for h in step_faults] + ([("get_data", h) for h in data_faults] if has_out else [])
    req, how = rng.choice(choices)
    fault = {"sid": sid, "k": rng.randint(1, 3), "req": req, "how": how}
    if seed % 5 == 4:
        # the same in real-time mode (virtual clock, instant replies), where a simulator can schedule steps for itself with
        # set_event: the faulting simulator does so in the step whose reply is malformed (or earlier), so further steps of
        # it are already scheduled when the reply is validated
        rt = dict(scn, rt={"rt_factor": 1.0, "time_resolution": 1.0, "instant": True, "strict": False})
        rt["until"] = max(rt["until"], 4)
        fault = dict(fault, event=rng.choice([1, 1, 2, 0]))  # 0: no set_event call in the faulting step
        beh = {"kind": "faulty_rt", "fault": fault, "K": 1.0, "durations": [0], "p_future": 0.0,
               "events": {sid: {"p": rng.choice([0.0, 0.5]), "offsets": [1, 2]}}}
        yield {"id": [seed, "rt", fault], "scn": rt, "seed": seed, "behaviour": beh, "policy": {"kind": "timer"}}
        return
    yield {"id": [seed, fault], "scn": scn, "seed": seed, "behaviour": {"kind": "faulty", "fault": fault}, "policy": dict(policy or {})}
    if seed % 5 in (1, 2) and req == "step":
        # the same malformed reply from an in-process simulator that announces API version 2.2 (behind mosaik's adapters, shipped
        # LocalProxy): what an adapter passes on is validated like a current simulator's reply
        old = dict(scn, transport="local", sims=[dict(x, api="2.2") if x["sid"] == sid else x for x in scn["sims"]])
        yield {"id": [seed, "api2.2", fault], "scn": old, "seed": seed, "behaviour": {"kind": "faulty", "fault": fault}, "policy": {"kind": "fifo"}}


def gen_c16(seed, policy=None):
    """A simulator serving asynchronous requests of 1-2 agents, several step-size ratios."""
    rng = random.Random(f"c16|{seed}")
    nag = rng.randint(1, 2)
    grp = rng.choice([[], [], [1]])
    sims = [{"sid": "Sa", "type": rng.choice(["time-based", "hybrid"]), "gpath": list(grp), "nent": rng.choice([1, 1, 2])}]
    conns, agents, shifted = [], {}, []
    for j in range(nag):
        b = ["Sb", "Sc"][j]
        sims.append({"sid": b, "type": rng.choice(["time-based", "hybrid"]), "gpath": list(rng.choice([[], grp]))})
        c = {"src": "Sa", "dst": b, "async": True}
        if rng.random() < 0.7:
            c.update({"sa": "p", "da": "i"})
        conns.append(c)
        shifted.append(c)
        agents[b] = {"target": "Sa", "attr": rng.choice(["i", "i2"]), "p": rng.choice([0.5, 0.8, 1.0]), "eid": f"E{rng.randrange(sims[0]['nent'])}"}
        if sims[0]["nent"] == 2:
            agents[b]["also"] = [e for e in ("E0", "E1") if e != agents[b]["eid"]]
    if rng.random() < 0.4:
        sims.append({"sid": "Sd", "type": "time-based", "gpath": []})
        conns.append({"src": "Sd", "dst": "Sa", "sa": "p", "da": rng.choice(["i", "i2"])})
        # half of the time the set_data slots and the connection slot are kept apart, otherwise an agent may write to
        # the attribute that the ordinary connection feeds as well (inputs are keyed by source, so both must arrive:
        # the connection's value in every step, the agent's value exactly once)
        if rng.random() < 0.5:
            for a in agents.values():
                a["attr"] = "i" if conns[-1]["da"] == "i2" else "i2"
    if rng.random() < 0.3:
        # a second simulator served by the first agent, which now has two agent entities: one set_data call may address
        # both controlled simulators from both entities
        b0 = "Sb"
        sims.append({"sid": "Sf", "type": "time-based", "gpath": list(grp)})
        conns.append({"src": "Sf", "dst": b0, "async": True})
        next(s_ for s_ in sims if s_["sid"] == b0)["nent"] = 2
        agents[b0]["multi"] = {"targets": ["Sa", "Sf"], "srcs": ["E0", "E1"]}
    illegal = []
    if rng.random() < 0.4:
        # a simulator that is connected to an agent by an ORDINARY connection only: requests towards it must still be refused
        who0 = rng.choice(list(agents))
        sims.append({"sid": "Se", "type": "time-based", "gpath": []})
        conns.append({"src": "Se", "dst": who0, "sa": "p", "da": "i2"})
    if rng.random() < 0.6:
        who = rng.choice(list(agents))
        others = [s["sid"] for s in sims if s["sid"] not in ("Sa", who)]
        if others:
            illegal.append({"sid": who, "k": rng.randint(1, 2), "f": rng.choice(["set_data", "get_data"]), "target": rng.choice(others)})
            if illegal[-1]["f"] == "set_data" and rng.random() < 0.6:
                illegal[-1]["mixed"] = rng.choice(["legal_first", "legal_first", "illegal_first"])
    ratios = rng.choice([(1, 1), (1, 2), (2, 1), (1, 3), (3, 1)])
    if random.Random(f"c16shift|{seed}").random() < 0.3:
        # (its own random source: the scenarios of a seed stay what they were) the data connection that carries the asynchronous requests is TIME-SHIFTED as well - one call
        # connect(a, b, ('p', 'i'), time_shifted=True, initial_data={...}, async_requests=True): the agent must still wait for the
        # served simulator's step at the same time (the asynchronous link has no delay)
        for c in shifted:
            if c.get("sa"):
                c.update({"shift": 1, "init": True})
    scn = S.normalize({"sims": sims, "conns": conns, "until": rng.randint(3, 5), "lazy": rng.random() < 0.5, "cache": rng.random() < 0.5})
    beh = {"kind": "agent", "agents": agents, "illegal": illegal,
           "tb_next": [ratios[0]] if rng.random() < 0.7 else [1, 2], "ev_next": [None, ratios[1], ratios[1]]}
    clash = [i_ for i_ in illegal if i_.get("mixed") and i_["target"] in ("Sd", "Se")]
    if clash and rng.random() < 0.6:
        # the forbidden simulator is NAMED like the entity of the controlled simulator that the same call addresses (ids live in
        # separate name spaces: simulator "E0" next to entity "Sa.E0", as a simulator "Storage" next to an entity "Grid.Storage")
        new = agents[clash[0]["sid"]].get("eid", "E0")
        rn = {clash[0]["target"]: new}
        scn = S.rename_sids(scn, rn)
        illegal = [dict(i_, target=rn.get(i_["target"], i_["target"])) for i_ in illegal]
        beh = dict(beh, illegal=illegal)
    elif rng.random() < 0.25:
        # simulator ids of which one is a PREFIX of another (as mosaik's own ids X-1 / X-10, or Grid / Grid2), shorter one started first
        scn = S.rename_sids(scn, {"Sa": "G", "Sf": "G2", "Sb": "G-1", "Sc": "G-10", "Sd": "G-2", "Se": "G20"})
        agents = {{"Sb": "G-1", "Sc": "G-10"}.get(k, k): dict(v, target="G", **({"multi": dict(v["multi"], targets=["G", "G2"])} if v.get("multi") else {}))
                  for k, v in agents.items()}
        rn = {"Sa": "G", "Sf": "G2", "Sb": "G-1", "Sc": "G-10", "Sd": "G-2", "Se": "G20"}
        illegal = [dict(i_, sid=rn.get(i_["sid"], i_["sid"]), target=rn.get(i_["target"], i_["target"])) for i_ in illegal]
        beh = dict(beh, agents=agents, illegal=illegal)
    elif rng.random() < 0.45:
        # the ROLES rotate over the ids: many worlds are built in one process, and the id that names the served simulator in one
        # world names an agent, or a simulator nobody may address, in another (permissions are per world, not per id)
        names = ["Sa", "Sb", "Sc", "Sd", "Se", "Sf"]
        perm = names[:]
        rng.shuffle(perm)
        rn = dict(zip(names, perm))
        scn = S.rename_sids(scn, rn)
        agents = {rn.get(k, k): dict(v, target=rn.get(v["target"], v["target"]),
                                     **({"multi": dict(v["multi"], targets=[rn.get(x, x) for x in v["multi"]["targets"]])} if v.get("multi") else {}))
                  for k, v in agents.items()}
        illegal = [dict(i_, sid=rn.get(i_["sid"], i_["sid"]), target=rn.get(i_["target"], i_["target"])) for i_ in illegal]
        beh = dict(beh, agents=agents, illegal=illegal)
    if rng.random() < 0.15:
        # the shipped LocalProxy with generator-style step() methods: the call-backs are yielded to mosaik
        scn["transport"] = "local"
        for s_ in scn["sims"]:
            s_["gen"] = True
    yield {"id": [seed, ratios], "scn": scn, "seed": seed, "behaviour": beh, "policy": dict(policy or {})}


def gen_c09(seed, policy=None):
    """Same-time (weak) loops of 2-3 simulators in a group / nested group, loop guard around the bound."""
    rng = random.Random(f"c09|{seed}")
    n = rng.randint(2, 3)
    grp = rng.choice([[1], [1, 2]])
    sims = [{"sid": S_, "type": rng.choice(["hybrid", "event-based"]), "gpath": list(grp), "initev": False} for S_ in ["Sa", "Sb", "Sc"][:n]]
    sims[0]["initev"] = sims[0]["type"] == "event-based"
    conns = []
    for i in range(n):
        a, b = sims[i], sims[(i + 1) % n]
        conns.append({"src": a["sid"], "dst": b["sid"], "sa": "e", "da": "ti", "weak": i == n - 1})
    if rng.random() < 0.5:  # a consumer outside the group
        sims.append({"sid": "Sd", "type": rng.choice(["hybrid", "event-based"]), "gpath": list(rng.choice([[], [3], grp[:1]]))})
        conns.append({"src": rng.choice(sims[:n])["sid"], "dst": "Sd", "sa": "e2" if rng.random() < 0.5 else "e", "da": "ti"})
    if rng.random() < 0.3:  # a second, disjoint loop
        sims += [{"sid": "Se", "type": "hybrid", "gpath": [5]}]
        conns.append({"src": "Se", "dst": "Se", "sa": "e", "da": "ti", "weak": True})
    rng2 = random.Random(f"c09sib|{seed}")  # (its own random source: the scenarios of a seed stay what they were)
    if rng2.random() < 0.35:
        # a second loop in a SIBLING group (same parent, same depth) that is TRIGGERED from the first loop: each loop counts its
        # own iterations - the sub-step at which the first loop emitted must not be carried into the other group
        sib = grp[:-1] + [9]
        if not any(x["sid"] == "Se" for x in sims):
            sims += [{"sid": "Se", "type": "hybrid", "gpath": sib}]
            conns.append({"src": "Se", "dst": "Se", "sa": "e", "da": "ti", "weak": True})
        else:
            next(x for x in sims if x["sid"] == "Se")["gpath"] = sib
        conns.append({"src": sims[rng2.randrange(n)]["sid"], "dst": "Se", "sa": "e", "da": "ti2"})
    scn = S.normalize({"sims": sims, "conns": conns, "until": rng.randint(1, 3), "maxloop": rng.choice([0, 1, 2, 3, 5]),
                       "lazy": rng.random() < 0.5, "cache": rng.random() < 0.5})
    beh = {"kind": "random", "p_event": rng.choice([0.5, 0.8, 1.0]), "p_future": 0.0, "ev_next": [None, None, 1]}
    if any(c["da"] == "ti2" and c["dst"] == "Se" for c in conns) and rng2.random() < 0.7:
        # loops that mostly SETTLE, each within the bound, while the iterations of both together reach it
        scn["maxloop"] = rng2.choice([3, 4, 5, 6])
        beh["p_event"] = rng2.choice([0.5, 0.6, 0.7])
    if rng.random() < 0.2:
        scn = S.rename_sids(scn)  # the error must name the simulator whatever characters its id contains
    if rng.random() < 0.3:
        scn["world_positional"] = True  # the bound reaches the World as the sixth POSITIONAL argument of the constructor
    if rng.random() < 0.3:
        # the bound is assigned (world.max_loop_iterations = n) after the simulators were started; the constructor got another value
        scn["maxloop_late"] = rng.choice([100, 0, scn["maxloop"] + 2, max(0, scn["maxloop"] - 1), 1])
    if rng.random() < 0.25:
        # the loops happen at LARGE simulation times (every simulator's first step announces time + jump), and replies may
        # carry the optional output time equal to the step time
        beh = dict(beh, jump=rng.choice([300, 1000, 86400]), p_time_echo=0.5, ev_next=[None, 1, 1])
        scn = dict(scn, until=beh["jump"] + scn["until"])
    yield {"id": [seed, scn["maxloop"]], "scn": scn, "seed": seed, "behaviour": beh, "policy": dict(policy or {})}


def gen_paths(seed, policy=None, behaviour=None):
    """Several trigger paths with DIFFERENT total delays between one pair of simulators (a direct time-shifted connection and
    a chain of plain ones), followed by a tail of descendants; sparse source; every start order.  The distances of the
    triggering ancestors (progress, max_advance) must be the minimum over all paths - also for the descendants."""
    rng = random.Random(f"paths|{seed}")
    names = ["Sa", "Sb", "Sc", "Sd", "Se", "Sf"]
    nmid, ntail = rng.randint(1, 2), rng.randint(1, 2)
    a, mids, b, tail = names[0], names[1:1 + nmid], names[1 + nmid], names[2 + nmid:2 + nmid + ntail]
    sims = [{"sid": a, "type": "time-based"}] + [{"sid": x, "type": rng.choice(["event-based", "hybrid"])} for x in mids + [b] + tail]
    conns = [{"src": a, "dst": b, "sa": "p", "da": "ti", "shift": rng.choice([1, 1, 2, 3])}]
    prev = a
    for x in mids + [b]:
        conns.append({"src": prev, "dst": x, "sa": "p" if prev == a else "e", "da": "ti", "shift": 1 if rng.random() < 0.1 else 0})
        prev = x
    prev = b
    for x in tail:
        conns.append({"src": prev, "dst": x, "sa": "e", "da": "ti", "shift": 1 if rng.random() < 0.15 else 0})
        prev = x
    rng.shuffle(conns)
    if rng.random() < 0.35:
        # a simulator on the path is also connected to ITSELF (time-shifted, from the port that feeds its descendants), and
        # that connection is made first
        m = rng.choice(mids + [b])
        nent = 2 if rng.random() < 0.5 else 1
        next(x for x in sims if x["sid"] == m)["nent"] = nent
        conns.insert(0, {"src": m, "dst": m, "sa": "e", "da": "ti2", "se": "E0", "de": f"E{nent - 1}", "shift": rng.choice([1, 2])})
    order = [x["sid"] for x in sims]
    rng.shuffle(order)
    scn = S.normalize({"sims": sims, "conns": conns, "until": rng.randint(5, 8), "order": order})
    beh = dict({"kind": "random", "tb_next": [rng.choice([2, 3]), rng.choice([1, 2, 3])], "p_event": rng.choice([0.8, 1.0]), "ev_next": [None], "p_future": 0.0},
               **(behaviour or {}))
    for lazy in (True, False):
        yield {"id": [seed, lazy], "scn": dict(scn, lazy=lazy, cache=rng.random() < 0.5), "seed": seed, "behaviour": beh, "policy": dict(policy or {})}


def gen_pending(seed, policy=None):
    """MANY pending steps in one simulator: a planner announces 10-14 future events for a sink in scrambled order (outputs dated
    into the future), then one that is earlier than all of them; the sink has to perform them in chronological order."""
    rng = random.Random(f"pending|{seed}")
    n = rng.randint(9, 14)
    perm = list(range(n))
    rng.shuffle(perm)
    table = []
    for k in range(1, n + 2):                        # k-th step of the planner, at time k - 1
        t = k - 1
        table.append(["Sa", "step", k, t + 1 if k <= n else None])
        ot = n + 1 + perm[t] if t < n else n         # the last announcement (time n) is earlier than everything pending
        table.append(["Sa", "get_data", k, {"E0": {"e": f"Sa.{k}.e"}, "time": ot}])
    scn = S.normalize({"sims": [{"sid": "Sa", "type": "event-based", "initev": True}, {"sid": "Sb", "type": rng.choice(["event-based", "hybrid"])}],
                       "conns": [{"src": "Sa", "dst": "Sb", "sa": "e", "da": "ti"}], "until": 2 * n + 2})
    beh = {"kind": "table", "table": table, "ev_next": [None], "p_event": 0.0, "p_future": 0.0}
    for lazy in (True, False):
        yield {"id": [seed, n, lazy], "scn": dict(scn, lazy=lazy, cache=rng.random() < 0.5), "seed": seed, "behaviour": beh, "policy": dict(policy or {})}


def gen_loopfan(seed, policy=None):
    """A trigger LOOP A -> B -> A (closed by a weak edge inside a group, or by a time-shifted edge) with triggering connections
    fanning OUT of the loop to event-based simulators that never step on their own (C, possibly D behind C or behind B), in every
    order of making the connections and of starting the simulators; loop members often end a time step WITHOUT emitting.  Whatever
    bookkeeping decides whose progress is advanced after a step, the outside simulators must be released when the loop falls silent."""
    rng = random.Random(f"loopfan|{seed}")
    grouped = rng.random() < 0.5
    g = [1] if grouped else []
    sims = [{"sid": "Sa", "type": rng.choice(["hybrid", "time-based"]) if not grouped else "hybrid", "gpath": list(g)},
            {"sid": "Sb", "type": rng.choice(["event-based", "hybrid"]), "gpath": list(g)},
            {"sid": "Sc", "type": "event-based", "gpath": list(rng.choice([[], g]))}]
    back = {"src": "Sb", "dst": "Sa", "sa": "e", "da": "ti" if sims[0]["type"] == "hybrid" else "i"}
    if grouped and rng.random() < 0.7:
        back["weak"] = True
    else:
        back["shift"] = 1
        if back["da"] == "i":
            back.update({"sa": "e", "init": True})
    fwd_attr = "e" if sims[0]["type"] == "hybrid" else "p"
    conns = [{"src": "Sa", "dst": "Sb", "sa": fwd_attr, "da": "ti"}, back, {"src": "Sa", "dst": "Sc", "sa": fwd_attr, "da": "ti"}]
    if rng.random() < 0.5:
        sims.append({"sid": "Sd", "type": "event-based", "gpath": []})
        conns.append({"src": rng.choice(["Sc", "Sb"]), "dst": "Sd", "sa": "e", "da": "ti"})
    if rng.random() < 0.3:
        conns.append({"src": "Sb", "dst": "Sc", "sa": "e", "da": "ti2"})
    rng.shuffle(conns)
    order = [x["sid"] for x in sims]
    rng.shuffle(order)
    scn = S.normalize({"sims": sims, "conns": conns, "until": rng.randint(3, 5), "maxloop": 6, "order": order})
    beh = {"kind": "random", "tb_next": [1], "ev_next": [None, None, 1], "p_event": rng.choice([0.4, 0.6, 0.8]), "p_none": 0.2, "p_future": 0.0}
    for lazy in (True, False):
        for j in range(2):
            yield {"id": [seed, lazy, j], "scn": dict(scn, lazy=lazy, cache=rng.random() < 0.5), "seed": seed * 7 + j, "behaviour": dict(beh, seed=seed * 3 + j),
                   "policy": dict(policy or {"kind": "random", "early": [0.0, 0.5][j]})}


def gen_chain(seed, policy=None):
    """A slow source, an event-based relay whose outputs may be dated into the FUTURE (so it can be idle with nothing
    scheduled although it will be triggered again), and a consumer that also steps on its own."""
    rng = random.Random(f"chain|{seed}")
    sims = [{"sid": "Sa", "type": "time-based"}, {"sid": "Sb", "type": rng.choice(["event-based", "hybrid"])}, {"sid": "Sc", "type": "hybrid"}]
    conns = [{"src": "Sa", "dst": "Sb", "sa": "p", "da": "ti"}, {"src": "Sb", "dst": "Sc", "sa": "e", "da": rng.choice(["ti", "i"])}]
    if rng.random() < 0.3:
        sims.append({"sid": "Sd", "type": "time-based"})
        conns.append({"src": "Sd", "dst": "Sc", "sa": "p", "da": "i2"})
    scn = S.normalize({"sims": sims, "conns": conns, "until": rng.randint(5, 8)})
    beh = {"kind": "random", "tb_next": [1, 1, 2], "ev_next": [None, 1, 1, 2], "p_event": 0.9, "p_future": 0.6, "future": [0, 1, 2, 3]}
    for lazy in (True, False):
        for j in range(2):
            yield {"id": [seed, lazy, j], "scn": dict(scn, lazy=lazy, cache=rng.random() < 0.5), "seed": seed * 7 + j, "behaviour": dict(beh, seed=seed),
                   "policy": dict(policy or {"kind": "random", "early": [0.0, 0.5][j]})}


def gen_rt10(seed, policy=None):
    """Real-time runs for C10: consumers SLOWER than real time (step durations of 1.5 - 3 real-time steps) under lazy stepping;
    half of the simulators declare `set_events: True` in their meta."""
    from checks import rt as _rt

    rng = random.Random(f"rt10|{seed}")
    for c in _rt.gen_rt(seed):
        if c["id"][1] != "rt" or c["scn"].get("transport") == "local" or c["scn"]["rt"].get("external"):
            continue
        scn = json.loads(json.dumps(c["scn"]))
        scn["lazy"] = True
        scn["rt"]["instant"] = False
        for x in scn["sims"]:
            if rng.random() < 0.5:
                x["set_events"] = True
        beh = dict(c["behaviour"], durations=rng.choice([[0, 3, 6], [3, 4], [0, 0, 5]]))
        yield dict(c, id=[seed, "rt10"], scn=scn, behaviour=beh)


def gen_group5(seed, policy=None):
    """One group: a producer P in a same-time (weak) loop with L, several consumers of P (plain connections), one of which is ALSO
    triggered through a weak edge from an independent fast source Z - so that consumers wait for P at the same world time but at
    different sub-steps while P's lower sub-step is still in flight (seed C01-h)."""
    rng = random.Random(f"group5|{seed}")
    g = rng.choice([[1], [1, 2]])
    sims = [{"sid": "Sa", "type": "hybrid", "gpath": list(g)},                      # P
            {"sid": "Sb", "type": rng.choice(["event-based", "hybrid"]), "gpath": list(g)},  # L
            {"sid": "Sc", "type": rng.choice(["time-based", "hybrid"]), "gpath": list(g)},   # R
            {"sid": "Sd", "type": "time-based", "gpath": list(g)},                  # Z
            {"sid": "Se", "type": "hybrid", "gpath": list(g)}]                      # W
    pa = rng.choice(["p", "e"])
    conns = [{"src": "Sa", "dst": "Sb", "sa": "e", "da": "ti"},
             {"src": "Sb", "dst": "Sa", "sa": "e", "da": "ti", "weak": True},
             {"src": "Sa", "dst": "Sc", "sa": pa, "da": "i"},
             {"src": "Sd", "dst": "Se", "sa": "p", "da": "ti", "weak": True},
             {"src": "Sa", "dst": "Se", "sa": pa, "da": "i"}]
    if rng.random() < 0.4:
        sims.append({"sid": "Sf", "type": "hybrid", "gpath": list(g)})
        conns += [{"src": "Sa", "dst": "Sf", "sa": pa, "da": "i"}, {"src": "Sd", "dst": "Sf", "sa": "p2", "da": "ti2", "weak": True}]
    rng.shuffle(conns)
    order = [x["sid"] for x in sims]
    rng.shuffle(order)
    scn = S.normalize({"sims": sims, "conns": conns, "until": rng.randint(2, 3), "maxloop": 4, "order": order,
                       "lazy": rng.random() < 0.5, "cache": rng.random() < 0.5})
    beh = {"kind": "random", "p_event": rng.choice([0.6, 0.9]), "p_future": 0.0, "tb_next": [1], "ev_next": [None, None, 1]}
    for j in range(3):
        yield {"id": [seed, "group5", j], "scn": scn, "seed": seed * 5 + j, "behaviour": beh,
               "policy": dict(policy or {"kind": "random", "early": [0.2, 0.5, 0.8][j]})}


explore.GENERATORS.update({"group5": gen_group5, "rt10": gen_rt10, "c13": gen_c13, "c16": gen_c16, "c09": gen_c09, "paths": gen_paths, "pending": gen_pending, "chain": gen_chain, "loopfan": gen_loopfan})

# --------------------------------------------------------------------------- profiles

FAM_ALL = {}
PROFILES = {
    "C01": [("random", {"fam": {"p_async": 0.2}}), ("random", {"fam": {"nsims": (3, 5), "nconns": (3, 7)}, "policy": {"early": 0.6}, "behaviour": {"p_none": 0.15}}),
            ("chain", {"frac": 0.4}), ("group5", {"frac": 0.3})],
    "C02": [("random", {"fam": {"p_async": 0.1}, "behaviour": {"p_future": 0.4, "ev_next": [None, 1, 2, 3], "p_extra": 0.15}}),
            # (None, 0, "", False, lists and dictionaries are legal output VALUES: they trigger and travel like any other)
            ("random", {"fam": {"types": ["event-based", "hybrid"], "until": (3, 5), "p_two_entities": 0.4}, "behaviour": {"p_future": 0.5, "future": [0, 1, 2, 3], "p_none": 0.3, "p_event": 0.5}}),
            ("random", {"fam": {"nsims": (8, 11), "nconns": (6, 14), "until": (2, 3), "weak": 0.2}, "frac": 0.08}),
            ("pending", {"frac": 0.15}),
            ("random", {"fam": {"types": ["event-based", "hybrid", "time-based"], "until": (3, 5)}, "behaviour": {"ev_next": [None, 1, 2]}, "transport": "local_gen", "frac": 0.15})],
    "C03": [("random", {"fam": {"shifts": (0, 0, 1, 2, 3), "until": (3, 5), "p_two_entities": 0.4}, "behaviour": {"p_extra": 0.15}}),
            # declared initial data on ordinary connections, first values dated into the future
            ("random", {"fam": {"groups": False, "types": ["hybrid", "hybrid", "time-based"], "until": (3, 5), "p_extra_init": 0.5, "shifts": (0, 0, 1)},
                        "behaviour": {"future_pers": True, "p_future": 0.5, "future": [0, 1, 2]}, "frac": 0.3}),
            ("random", {"fam": {"groups": False, "nsims": (2, 3), "until": (4, 6), "types": ["time-based", "time-based", "hybrid"]},
                        "behaviour": {"tb_next": [1, 1, 2, 3], "recur": 2}, "frac": 0.4}),
            # persistent values HELD over several steps (the same object re-sent), the first reply of each run announced ahead
            ("random", {"fam": {"groups": False, "nsims": (2, 3), "until": (5, 7), "types": ["hybrid", "hybrid", "time-based"], "shifts": (0, 0, 1), "selfloops": 0.0},
                        "behaviour": {"hold": 3, "tb_next": [1], "ev_next": [1], "p_future": 0.0, "p_event": 0.3}, "frac": 0.25}),
            ("random", {"fam": {"groups": False, "nsims": (2, 3), "until": (3, 6)}, "behaviour": {"tb_next": [1, 2, 4], "p_future": 0.3, "p_none": 0.2}})],
    "C05": [("random", {"fam": {"nsims": (2, 5), "nconns": (1, 7), "until": (2, 5), "p_async": 0.1}, "behaviour": {"p_none": 0.1}}),
            ("random", {"fam": {"shifts": (0, 1, 2, 3)}, "behaviour": {"p_future": 0.5, "future": [0, 1, 2, 3]}, "policy": {"early": 0.6}}),
            ("paths", {"frac": 0.3}),
            ("pending", {"frac": 0.15}),
            ("loopfan", {"frac": 0.25}),
            # LARGE simulation times (every first step announces time + jump) and the optional output time = step time
            # (no time-shifted connections here: a shifted trigger cycle would step at every one of the 1000 ticks in between)
            ("random", {"fam": {"weak": 0.6, "until": (2, 4), "shifts": (0,), "selfloops": 0.0, "p_shift_weak": 0.0},
                        "behaviour": {"jump": 1000, "p_time_echo": 0.5, "p_event": 0.9, "ev_next": [None, 1, 1], "p_future": 0.0}, "frac": 0.2}),
            # many simulators, sparse connections (heap / set / dictionary orders beyond a handful of simulators)
            ("random", {"fam": {"nsims": (8, 11), "nconns": (6, 14), "until": (2, 3), "weak": 0.2}, "frac": 0.08})],
    "C07": [("random", {"fam": {"types": ["event-based", "hybrid", "hybrid"], "until": (3, 5)}, "behaviour": {"ev_next": [None, 1, 2, 3]}}),
            ("random", {"fam": {"types": ["hybrid"], "nsims": (2, 3), "nconns": (2, 5), "until": (3, 5)}, "policy": {"early": 0.6}}),
            ("paths", {"frac": 0.3})],
    "C10": [("rt10", {"frac": 0.25}),
            ("random", {"fam": {"p_async": 0.1}, "lazy": (True,)}),
            ("random", {"fam": {"types": ["time-based", "hybrid"], "nconns": (2, 6)}, "lazy": (True,), "behaviour": {"tb_next": [1, 1, 2, 3]}})],
    "C09": [("c09", {}), ("random", {"fam": {"weak": 0.9, "maxloop": 2, "siblings": False}, "behaviour": {"p_event": 0.9}})],
    "C13": [("c13", {}), ("c13", {"fam": {"groups": False}, "policy": {"early": 0.6}})],
    "C16": [("c16", {}), ("random", {"fam": {"p_async": 0.5, "weak": 0.2}})],
}
SEEDS = {"quick": 700, "thorough": 12000}
SUITE_PROPS = ("C01", "C02", "C03", "C05", "C07", "C10")
SUITE_SEEDS = {"quick": 35, "thorough": 175}

ASSUMPTIONS = [
    "simulators are the harness's scripted asynchronous proxies (API-compliant unless the family injects a fault); the reply order is controlled, not timed",
    "asyncio semantics are CPython's (virtual-time BaseEventLoop subclass; only I/O polling and the clock are replaced)",
    "verdicts come from the TLA+ reference semantics MosaikRef evaluated by TLC on the recorded observable history",
    "interface decisions of DESIGN.md C03 (i)-(v) restrict the verdict families",
]


def run(prop, tier, seed, model_part=None):
    t0 = time.time()
    n = SEEDS[tier]
    dcases = directed.for_property(prop)
    pairs = explore.run_cases(dcases)
    ndirected = len(pairs)
    # stateless depth-first enumeration of ALL reply schedules (up to a preemption bound) of the directed cases and
    # of the small model scenarios, on the real scheduler
    dfs_cases = [dict(c, behaviour=dict(c["behaviour"]), policy={}) for c in dcases]
    try:
        from checks import model as _m

        for name, over in _m.CONFIGS.get(prop, [])[:3]:
            base, kw = _m.MODELS[name]
            if kw.get("agents") or kw.get("faults"):
                continue
            sc = dict(base)
            sc.update(over)
            dfs_cases.append({"id": ["dfs-model", name, over], "scn": S.normalize(sc), "seed": seed + 17, "behaviour": {"kind": "random", "seed": seed + 17}, "policy": {}})
    except ImportError:
        pass
    dfs_pairs = explore.run_dfs(dfs_cases, max_early=1 if tier == "quick" else 2, limit=250 if tier == "quick" else 6000)
    pairs += dfs_pairs
    base = seed * 1_000_003
    for gi, (gname, gkw) in enumerate(PROFILES[prop]):
        lo = base + gi * 500_000
        gkw = dict(gkw)
        frac = gkw.pop("frac", 1.0)  # a profile may take only a fraction of the tier's seeds
        pairs += explore.run_generated(gname, gkw, (lo, lo + max(1, int(n * frac))))
    # the repository's own scenarios (tests/scenarios/*.create_scenario, with the suite's simulators) under controlled schedules
    nsuite = 0
    if prop in SUITE_PROPS:
        ns = SUITE_SEEDS[tier]
        sp = explore.run_generated("suite", {"nsched": 2 if tier == "quick" else 10, "lazy": (True,) if prop == "C10" else (True, False)}, (base % 1000, base % 1000 + ns))
        sp = [(c, r) for c, r in sp if r["outcome"].get("phase") != "build"]
        for c, r in sp:
            c["scn"] = r.pop("scn")
        nsuite = len(sp)
        pairs += sp
    cov_model = {}
    extra_pairs = []
    if model_part is not None:
        cov_model, extra_pairs = model_part(prop, tier, seed)
        pairs += extra_pairs
    # conformance of (S) on RANDOM scenarios of this property's family (internal traces validated by SchedTrace)
    rconf = {}
    if model_part is not None and PROFILES[prop][0][0] == "random":
        from checks import model as _model

        fam = dict(PROFILES[prop][0][1].get("fam") or {})
        fam.pop("p_two_entities", None)
        rconf, rc_pairs = _model.random_conformance(prop, tier, seed, fam=fam)
        pairs += rc_pairs
    findings, st = sched_checks.judge_results(prop, pairs)
    cov = {
        "states": st["monitor"]["states"] + cov_model.get("states", 0) + rconf.get("states", 0),
        "transitions": st["monitor"]["generated"] + cov_model.get("transitions", 0) + rconf.get("transitions", 0),
        "traces_validated_against_impl": st["executions"],
        "samples": sched_checks.sample_of(pairs[ndirected:ndirected + 1] + pairs[:1]),
        "evaluations": st["executions"],
        "distinct_nontrivial": st["distinct_nontrivial"],
        "rule": "one evaluation = one execution of the real scheduler (scenario x behaviour x reply schedule) judged by TLC/RefTrace; "
                "distinct = distinct observable event histories; non-trivial = at least two step() calls",
        "exhaustive": False,
        "breakdown": {
            "directed_cases": ndirected,
            "dfs_schedule_enumeration": {"cases": len(dfs_cases), "distinct_executions": len(dfs_pairs)},
            "suite_scenario_executions": nsuite,
            "replayed_model_behaviours": len(extra_pairs),
            "trace_validation_states": st["monitor"]["states"],
            "model": cov_model,
            "random_scenario_conformance": {k: v for k, v in rconf.items() if k != "drift"},
            "random_scenario_drift": rconf.get("drift", []),
            "outcomes": st["stats"],
            "request_protocol_layer": {"drift": st.get("protocol_drift", []), "drift_count": st.get("protocol_drift_count", 0),
                                       "clauses": "PR_* of MosaikRef!ProtoStep evaluated at every SETUP / SB / SE / DB / DE / STOP event of every execution"},
            "information_request_layer": {"answers_judged": st.get("info_requests", {}), "drift": st.get("info_drift", []), "drift_count": st.get("info_drift_count", 0),
                                          "clauses": "IR_* of MosaikRef!RefInfo: every get_progress answer lies between the bounds the observable history puts on the sum of the "
                                                     "simulators' progress times as of the last completed step and never decreases; every get_related_entities answer "
                                                     "(whole graph / one entity / list) equals the created entities and the connected pairs"},
            "clauses_of_other_properties_seen": {k: v for k, v in st["all_clauses_seen"].items() if not k.startswith(prop + "_")},
        },
        "checker_cmd": "tlc -workers 1 -config RefTrace.cfg RefTrace (TRACE_FILE=<batch>), batches of 400 executions",
    }
    return checklib.conclude(prop, tier, seed, findings, cov, t0, ASSUMPTIONS)

"""C17: real-time pacing and external events, on the virtual clock.

mosaik.scheduler.perf_counter is pointed at a strictly increasing virtual clock, step durations
are virtual timers (exact binary fractions), so there is no wall-clock flakiness.  Every run is
judged by TLC with the C17 clauses of the reference semantics (plus the run-outcome clause: a
real-time run with compliant simulators completes without internal error); the pacing / polling /
set_event mechanism itself is model-checked (MosaikRT.tla); rt_strict runs are compared with the
corresponding non-strict runs by DetTrace.tla.
"""
from __future__ import annotations

import json
import random
import time

from harness import checklib, explore, families, sched_checks, scn as S, tlc


def gen_rt(seed, tier="quick"):
    rng = random.Random(f"c17|{seed}")
    scn = families.random_scenario(rng, nsims=(2, 3), nconns=(0, 3), until=(2, 4), weak=0.2, siblings=False, p_async=0.0, selfloops=0.0)
    scn["lazy"], scn["cache"] = rng.random() < 0.7, rng.random() < 0.7
    f, r = rng.choice([0.5, 1.0, 2.0]), rng.choice([0.5, 1.0, 2.0])
    if rng.random() < 0.15:
        # very short steps: rt_factor * time_resolution below a millisecond (binary fractions: exact on the virtual clock)
        f, r = rng.choice([2.0 ** -12, 2.0 ** -6, 2.0 ** -10]), rng.choice([1.0, 2.0 ** -4, 0.5])
    K = f * r
    durs = rng.choice([[0], [0], [0, 1], [1, 2], [2, 4], [0, 3]])
    instant = durs == [0]
    events = {}
    for s in scn["sims"]:
        if rng.random() < 0.5:
            events[s["sid"]] = {"p": rng.choice([0.3, 0.7, 1.0]), "offsets": rng.choice([[1], [1, 2], [2, 3], [1, 5], [9]])}
    beh = {"kind": "rt", "K": K, "durations": durs, "events": events, "tb_next": [1, 2], "ev_next": [None, None, 1], "p_future": 0.0}
    scn = dict(scn, rt={"rt_factor": f, "time_resolution": r, "instant": instant, "strict": False})
    if rng.random() < 0.4:
        # EXTERNAL events: set_event(t) called from outside a step at arbitrary wall-clock times (in eighths of a step), for
        # the step that is running on the wall clock or a later one.  The receiver is an additional event-based simulator
        # without connections and without self-scheduled steps, so every event time is in its future.
        scn["sims"] = list(scn["sims"]) + [{"sid": "Sx", "type": "event-based", "gpath": list(rng.choice([[], [], [1]])), "initev": False, "nent": 1}]
        ext, at, tprev = [], 0, 0
        for _ in range(rng.randint(3, 6)):
            at += rng.randint(1, 12)
            # (at a wall-clock time of exactly k steps the strictly increasing clock already reads more than k: step k is past)
            t = max(at // 8 + 1, tprev + 1) + rng.choice([0, 0, 0, 1])
            ext.append({"sid": "Sx", "at": at, "t": t})
            tprev = t
        if rng.random() < 0.3:
            # ... and a consumer that is triggered by it
            scn["sims"].append({"sid": "Sy", "type": "event-based", "gpath": [], "initev": False, "nent": 1})
            e0 = "E0" + (scn.get("eid_suffix") or "")  # (the family may have decorated the entity ids)
            scn["conns"] = list(scn["conns"]) + [{"src": "Sx", "dst": "Sy", "sa": "e", "da": "ti", "se": e0, "de": e0}]
            beh["no_self_steps"] = ["Sx", "Sy"]
        if rng.random() < 0.7:
            beh["durations"], scn["rt"]["instant"] = [0], True
        scn["rt"]["external"] = ext
        if scn.get("order"):
            # (the family may have fixed a start order: the added simulators are started after the others - found by the request-
            # protocol layer: Sx was in the scenario record but never started, its external events were never injected)
            scn["order"] = list(scn["order"]) + [x["sid"] for x in scn["sims"] if x["sid"] not in scn["order"]]
        scn["until"] = max(scn["until"], min(tprev + rng.choice([0, 1, 2]), 8))
        beh.setdefault("no_self_steps", ["Sx"])
        scn = S.normalize(scn)
    if rng.random() < 0.25 and "external" not in scn["rt"]:
        # the shipped LocalProxy: synchronous in-process simulators (a whole step completes before the next process starts)
        scn["transport"] = "local"
        for s in scn["sims"]:
            s["gen"] = True
    yield {"id": [seed, "rt"], "scn": scn, "seed": seed, "behaviour": beh, "policy": {"kind": "timer"}}
    strict = json.loads(json.dumps(scn))
    strict["rt"]["strict"] = True
    yield {"id": [seed, "strict"], "scn": strict, "seed": seed, "behaviour": beh, "policy": {"kind": "timer"}}
    if events and rng.random() < 0.5:
        # the same simulators outside real-time mode: set_event must be refused with an error to the caller
        # (AsyncProxy only: the shipped LocalProxy does not deliver a call-back's exception into a generator-style step, the run just fails)
        nort = {k: v for k, v in scn.items() if k not in ("rt", "transport")}
        nort["capture_log"] = True
        yield {"id": [seed, "nort"], "scn": nort, "seed": seed, "behaviour": dict(beh, kind="rt"), "policy": {"kind": "fifo"}}


explore.GENERATORS["c17"] = gen_rt


# --------------------------------------------------------------------------- the polling model MosaikRTPoll and its binding

def _poll_case(ident, until, ext, seed=0):
    scn = {"sims": [{"sid": "Sx", "type": "event-based", "gpath": [], "initev": False}], "conns": [], "until": until,
           "rt": {"rt_factor": 1.0, "time_resolution": 1.0, "instant": True, "strict": False, "external": ext}}
    beh = {"kind": "rt", "K": 1.0, "durations": [0], "events": {}, "no_self_steps": ["Sx"], "p_future": 0.0}
    return {"id": ident, "scn": S.normalize(scn), "seed": seed, "behaviour": beh, "policy": {"kind": "timer"}}


def _poll_events(res, per_sub):
    """The logged events of one execution in model units (per_sub = harness ticks per model sub-tick); None if off the grid."""
    out = []
    for e in res["item"]["ev"]:
        if e["k"] == "CB" and e.get("ext"):
            out.append({"k": "ext", "w": e["w"], "t": e["arg"]})
        elif e["k"] == "SB":
            out.append({"k": "begin", "w": e["w"], "t": e["t"]})
        elif e["k"] == "END":
            out.append({"k": "end", "w": 0, "t": 0})
    for e in out:
        if e["w"] % per_sub:
            return None
        e["w"] //= per_sub
    return out


def poll_model_part(tier, seed):
    """MosaikRTPoll: (1) exhaustive TLC run, and the variant that refreshes the progress only after a timeout must violate
    Prompt (negative control of the specification); (2) spec -> code: every external schedule of the model's terminal states
    is replayed into the real scheduler, the begin times must be one of the model's outcomes; (3) code -> spec: random
    external schedules on a finer grid, every recorded execution must be a behaviour of the model (RTPollTrace)."""
    import collections
    import os
    import re
    import shutil

    cov = {"drift": []}
    out, secs, rc = tlc.run_tlc("MosaikRTPoll", cfg="MosaikRTPoll.cfg", workers=6, timeout=900)
    if "No error has been found" not in out:
        raise tlc.TLCError("MosaikRTPoll.tla: " + "\n".join(out.splitlines()[-30:]))
    cov["model"] = {"module": "MosaikRTPoll", "states": tlc.stats(out)["distinct"], "transitions": tlc.stats(out)["generated"]}
    outb, _, _ = tlc.run_tlc("MosaikRTPoll", cfg="MosaikRTPollBug.cfg", workers=2, timeout=900)
    if "Invariant Prompt is violated" not in outb and "Invariant NeverLate is violated" not in outb:
        raise tlc.TLCError("negative control failed: MosaikRTPoll with RefreshOnWake = FALSE does not violate Prompt\n" + "\n".join(outb.splitlines()[-20:]))
    cov["negative_control"] = "RefreshOnWake = FALSE violates Prompt (expected)"
    # (2) spec -> code
    outd, _, _ = tlc.run_tlc("MosaikRTPoll", cfg="MosaikRTPollDump.cfg", workers=1, timeout=900)
    Km, Um = 4, 4
    sentinel = (Um + 1) * Km * 2
    outcomes = collections.defaultdict(set)
    for txt in tlc.tuples(outd, "RTB"):
        parts = txt.split("(")
        if len(parts) < 3:
            continue
        setat = {int(a): int(b) for a, b in re.findall(r"(\d+) :> (\d+)", parts[1])}
        began = {int(a): int(b) for a, b in re.findall(r"(\d+) :> (\d+)", parts[2])}
        evs = tuple(sorted((setat[t], t) for t in range(1, Um) if began.get(t, sentinel) != sentinel))
        outcomes[evs].add(tuple(began.get(t, sentinel) for t in range(1, Um)))
    scheds = sorted(outcomes)
    cases = [_poll_case([f"rtpoll-replay-{i}", "poll-replay"], Um, [{"sid": "Sx", "at": w * 8 // Km, "t": t} for w, t in evs]) for i, evs in enumerate(scheds)]
    pairs = explore.run_cases(cases)
    per_sub = 1024 // Km
    ok = 0
    for (c, r), evs in zip(pairs, scheds):
        got = {e["t"]: e["w"] for e in r["item"]["ev"] if e["k"] == "SB"}
        vec = tuple((got[t] // per_sub if got[t] % per_sub == 0 else -1) if t in got else sentinel for t in range(1, Um))
        if r["outcome"]["r"] == "ok" and vec in outcomes[evs]:
            ok += 1
        elif len(cov["drift"]) < 5:
            cov["drift"].append({"what": "spec->code", "external": list(evs), "code_began": vec, "model_began": sorted(outcomes[evs])[:4], "outcome": r["outcome"]})
    cov["replayed_model_schedules"] = len(scheds)
    cov["replayed_with_model_outcome"] = ok
    cov["model_terminal_states"] = sum(len(v) for v in outcomes.values())
    # (3) code -> spec
    import random

    rng = random.Random(f"rtpoll|{seed}")
    n = 300 if tier == "quick" else 4000
    cases = []
    for i in range(n):
        ext, at, tprev = [], 0, 0
        for _ in range(rng.randint(1, 5)):
            at += rng.randint(0, 11)
            t = max(at // 8 + 1, tprev + 1) + rng.choice([0, 0, 0, 1])
            if t > 5:
                break
            ext.append({"sid": "Sx", "at": at, "t": t})
            tprev = t
        cases.append(_poll_case([f"rtpoll-{seed}-{i}", "poll"], 5, ext))
    pairs2 = explore.run_cases(cases)
    batch, owners = [], []
    for c, r in pairs2:
        evs = _poll_events(r, 128)
        if evs is None or r["outcome"]["r"] != "ok":
            if len(cov["drift"]) < 5:
                cov["drift"].append({"what": "code->spec", "external": c["scn"]["rt"]["external"], "why": "off the grid" if evs is None else r["outcome"]})
            continue
        batch.append({"ev": evs})
        owners.append((c, r))
    wd = tlc.scratch()
    try:
        path = os.path.join(wd, "batch.json")
        json.dump(batch, open(path, "w"))
        outt, secs, rc = tlc.run_tlc("RTPollTrace", cfg="RTPollTrace.cfg", env={"TRACE_FILE": path}, workers=4, timeout=1800)
    finally:
        shutil.rmtree(wd, ignore_errors=True)
    if "violated" in outt or "Error:" in outt:
        raise tlc.TLCError("RTPollTrace: " + "\n".join(outt.splitlines()[-30:]))
    acc = {int(m.group(1)) for m in re.finditer(r'<<"RTP", (\d+), \d+>>', outt)}
    for i, (c, r) in enumerate(owners, 1):
        if i not in acc and len(cov["drift"]) < 5:
            cov["drift"].append({"what": "code->spec", "external": c["scn"]["rt"]["external"], "events": batch[i - 1]["ev"]})
    cov["recorded_executions"] = len(batch)
    cov["recorded_executions_accepted"] = len(acc)
    cov["trace_states"] = tlc.stats(outt)["distinct"]
    for d in cov["drift"]:
        print(f"DRIFT real-time polling model {d['what']}: {json.dumps(d)[:300]} (code and specification MosaikRTPoll differ; not a verdict)")
    return cov, pairs + pairs2


def run(tier, seed):
    from checks import det

    t0 = time.time()
    out, secs, rc = tlc.run_tlc("MosaikRT", cfg="MosaikRT.cfg", workers=6, timeout=900)
    if "No error has been found" not in out:
        raise tlc.TLCError("MosaikRT.tla: " + "\n".join(out.splitlines()[-30:]))
    mst = tlc.stats(out)
    n = 500 if tier == "quick" else 8000
    base = seed * 1_000_003
    pairs = explore.run_generated("c17", {"tier": tier}, (base, base + n))
    poll_cov, poll_pairs = poll_model_part(tier, seed)
    pairs += poll_pairs  # the executions of the model binding are judged by the reference semantics as well
    findings, st = sched_checks.judge_results("C17", pairs, prefixes=("C17_", "C05_", "C02_"))
    # rt_strict changes nothing else: the strict run is a prefix of the non-strict run
    by = {}
    for c, r in pairs:
        by.setdefault(c["id"][0], {})[c["id"][1]] = (c, r)
    items, owners = [], []
    for sd, d in by.items():
        # (synchronous in-process simulators keep stepping in their own process while the RuntimeError propagates; those
        #  steps after the abort are not part of "what rt_strict changes", so the comparison uses the asynchronous transport)
        if "rt" in d and "strict" in d and d["rt"][1]["outcome"].get("phase") != "build" and d["rt"][0]["scn"].get("transport") != "local":
            cs, cr = det.canon_of(d["rt"][1]["item"])
            sr = d["strict"][1]
            reports = sum(1 for e in d["rt"][1]["item"]["ev"] if e["k"] == "LOG" and e.get("cat") == "too_slow")
            items.append({"canon": cs, "canon_r": sr["outcome"]["r"] if sr["outcome"]["r"] != "ok" else cr, "compare": True, "ev": sr["item"]["ev"],
                          "strictcmp": {"reports": reports}})
            owners.append(d["strict"])
    viols, dstates, dtrans = det.judge_det(items) if items else ([], 0, 0)
    for (c, r), vs in zip(owners, viols):
        vs = [v for v in vs if not (v[1] == "C04_missing_step")]
        if vs:
            l, clause, rest = vs[0]
            findings.append(checklib.Finding("C17", "C17_rt_strict_changes_the_run_" + clause[4:], c, r, l, rest))
    import collections

    kinds = collections.Counter(c["id"][1] for c, r in pairs)
    cov = {
        "states": mst["distinct"] + st["monitor"]["states"] + dstates, "transitions": mst["generated"] + st["monitor"]["generated"] + dtrans,
        "traces_validated_against_impl": st["executions"] + len(items),
        "samples": sched_checks.sample_of(pairs[:2]),
        "evaluations": st["executions"] + len(items), "distinct_nontrivial": st["distinct_nontrivial"],
        "rule": "seeded scenarios of 1-3 simulators (with/without groups and connections) x rt_factor in {0.5,1,2} x time_resolution in {0.5,1,2} x step durations "
                "in multiples of half a step (instant, short, long) x set_event calls (future times, times beyond the end) x rt_strict on/off x the same run outside "
                "real-time mode; virtual strictly increasing clock; distinct = distinct observable histories, non-trivial = at least two step() calls",
        "exhaustive": False,
        "runs": dict(kinds), "outcomes": st["stats"],
        "model": {"module": "MosaikRT", "states": mst["distinct"], "transitions": mst["generated"]},
        "polling_model": poll_cov,
        "checker_cmd": "tlc -config MosaikRT.cfg MosaikRT; tlc -config MosaikRTPoll.cfg MosaikRTPoll (+ MosaikRTPollBug.cfg, MosaikRTPollDump.cfg); tlc -config RTPollTrace.cfg RTPollTrace; "
                       "tlc -config RefTrace.cfg RefTrace; tlc -config DetTrace.cfg DetTrace",
    }
    assumptions = ["the clock of real-time runs is virtual and strictly increasing per read (jitter of a real clock is out of scope)",
                   "step durations are virtual timers on a binary-fraction grid"]
    return checklib.conclude("C17", tier, seed, findings, cov, t0, assumptions)

"""C04: schedule and configuration independence (determinism).

Every scenario is run once canonically (lazy stepping, cache, in-process style FIFO schedule)
and then under many variants: reply interleavings, start orders, connect orders, lazy off,
cache off, debug on, in-process (shipped LocalProxy) and remote (shipped RemoteProxy over
fake streams) transport.  TLC (DetTrace.tla) requires every simulator's k-th observation
(time, inputs) to equal the canonical one.  All runs are additionally judged by the reference
semantics (RefTrace) so that a difference can be attributed to an open known finding.
"""
from __future__ import annotations

import json
import os
import random
import re
import shutil
import time

from harness import checklib, directed, explore, families, monitor, scn as S, tlc


def canon_of(item):
    sims = {s["sid"]: [] for s in item["scn"]["sims"]}
    r = "ok"
    for e in item["ev"]:
        if e["k"] == "SB":
            sims[e["s"]].append({"t": e["t"], "inp": e["inp"]})
        elif e["k"] == "END":
            r = e["r"]
    return sims, r


def first_diff(canon_item, var_item):
    """The first observation (per simulator, in canonical order) in which the two runs differ."""
    co, _ = canon_of(canon_item)
    vo, _ = canon_of(var_item)
    for s in co:
        for k in range(max(len(co[s]), len(vo[s]))):
            a = co[s][k] if k < len(co[s]) else None
            b = vo[s][k] if k < len(vo[s]) else None
            if a is None or b is None or a["t"] != b["t"] or sorted(map(json.dumps, a["inp"])) != sorted(map(json.dumps, b["inp"])):
                return {"sim": s, "k": k + 1, "canonical": a, "variant": b}
    return None


def variants(case, rng, tier):
    """Variant cases of a canonical case."""
    scn = case["scn"]
    out = []

    def v(name, **over):
        c = json.loads(json.dumps(case))
        c["id"] = case["id"] + [name]
        for k, val in over.items():
            if k in ("policy", "connect_order"):
                c[k] = val
            else:
                c["scn"][k] = val
        out.append(c)

    nsched = 3 if tier == "quick" else 8
    for i in range(nsched):
        v(f"sched{i}", policy={"kind": "random", "early": [0.0, 0.3, 0.7][i % 3]})
        out[-1]["seed"] = case["seed"] * 131 + i
    v("lifo", policy={"kind": "lifo"})
    v("nolazy", lazy=False, policy={"kind": "random", "early": 0.3})
    v("nocache", cache=False, policy={"kind": "random", "early": 0.3})
    v("nolazy_nocache", lazy=False, cache=False)
    v("debug", debug=True)
    v("local", transport="local")
    v("local_nocache", transport="local", cache=False)
    # in-process simulators that keep ONE output dictionary and update it in place (mosaik gets the same objects every step)
    c_ = json.loads(json.dumps(case))
    c_["id"] = case["id"] + ["local_reuse"]
    c_["scn"]["transport"] = "local"
    for s_ in c_["scn"]["sims"]:
        s_["reuse"] = True
    out.append(c_)
    # ... and the same simulators speaking API version 2.2 (behind mosaik's adapters); hybrid/event-based need v3 (type)
    if all(s_["type"] == "time-based" for s_ in scn["sims"]):
        c2 = json.loads(json.dumps(c_))
        c2["id"] = case["id"] + ["local_reuse_api22"]
        for s_ in c2["scn"]["sims"]:
            s_["api"] = "2.2"
        out.append(c2)
    v("remote", transport="remote", policy={"kind": "random", "early": 0.3})
    v("remote_nolazy", transport="remote", lazy=False, policy={"kind": "random", "early": 0.5})
    sids = [s["sid"] for s in scn["sims"]]
    for i in range(2):
        order = sids[:]
        rng.shuffle(order)
        v(f"order{i}", order=order, policy={"kind": "random", "early": 0.3})
    if len(scn["conns"]) > 1:
        v("connrev", connect_order=list(range(len(scn["conns"])))[::-1])
    return out


def gen_c04(seed, tier="quick"):
    rng = random.Random(f"c04|{seed}")
    # every fourth scenario may contain connections with async_requests (an ordering dependency; no set_data calls)
    scn = families.random_scenario(rng, parallel_delays=False, p_async=0.3 if seed % 4 == 3 else 0.0, nsims=(2, 4), until=(2, 4),
                                   p_extra_init=0.4 if seed % 4 == 1 or seed % 5 == 4 else 0.0)
    scn["lazy"], scn["cache"] = True, True
    # every third scenario: produced values are None now and then (a legal value that must travel like any other)
    # ... and every third scenario: persistent values that RECUR (v, w, v, ...) instead of being unique per step
    case = {"id": [seed], "scn": scn, "seed": seed,
            # ... and every fifth scenario: persistent values of hybrid simulators dated into the future by a constant offset (the
            # first value is then due AFTER the consumer's first steps: declared initial data is what it must see until then)
            "behaviour": {"kind": "random", "seed": seed, "p_none": 0.25 if seed % 3 == 1 else 0.0, "recur": (2 + seed % 2) if seed % 3 == 2 else 0,
                          **({"future_pers": True, "p_future": 0.5, "future": [0, 1, 2]} if seed % 5 == 4 else {})},
            "policy": {"kind": "fifo"}}
    yield case
    for v in variants(case, rng, tier):
        yield v


explore.GENERATORS["c04"] = gen_c04

_V04 = re.compile(r'<<"V04", (\d+), (\d+), "(\w+)", (.*)>>$')


def judge_det(items, chunk=300):
    import concurrent.futures as cf

    def one(part):
        wd = tlc.scratch()
        try:
            path = os.path.join(wd, "batch.json")
            json.dump(part, open(path, "w"))
            out, secs, rc = tlc.run_tlc("DetTrace", cfg="DetTrace.cfg", env={"TRACE_FILE": path}, workers=1, timeout=1800)
        finally:
            shutil.rmtree(wd, ignore_errors=True)
        viol = [[] for _ in part]
        done = set()
        for t in tlc.tuples(out, "V04"):
            m = _V04.match(t)
            if m:
                viol[int(m.group(1)) - 1].append((int(m.group(2)), m.group(3), m.group(4)))
        for m in re.finditer(r'<<"T04", (\d+), (\d+)>>', out):
            done.add(int(m.group(1)))
        if done != set(range(1, len(part) + 1)):
            raise tlc.TLCError("DetTrace did not finish\n" + "\n".join(out.splitlines()[-30:]))
        return viol, tlc.stats(out)

    parts = [items[i:i + chunk] for i in range(0, len(items), chunk)]
    viols, states, trans = [], 0, 0
    with cf.ThreadPoolExecutor(max_workers=14) as ex:
        for viol, st in ex.map(one, parts):
            viols += viol
            states += st["distinct"]
            trans += st["generated"]
    return viols, states, trans


def run(tier, seed):
    t0 = time.time()
    n = 250 if tier == "quick" else 4000
    base = seed * 1_000_003
    pairs = explore.run_generated("c04", {"tier": tier}, (base, base + n))
    # directed scenarios as additional canonical cases
    rng = random.Random(f"c04d|{seed}")
    dcases = []
    for c in directed.for_property("C04"):
        c = dict(c, id=["directed"] + c["id"][1:])
        canon = dict(c)
        dcases.append(canon)
        for v in variants({"id": canon["id"], "scn": S.normalize(c["scn"]), "seed": 7, "behaviour": c["behaviour"], "policy": {"kind": "fifo"}}, rng, tier):
            # keep the directed scenario's own flags as the canonical ones; variants flip them
            dcases.append(v)
    pairs += explore.run_cases(dcases)
    # group by canonical id
    canon = {}
    for c, r in pairs:
        if len(c["id"]) == 1 or (c["id"][0] == "directed" and len(c["id"]) == 2):
            canon[json.dumps(c["id"])] = r
    items, owners = [], []
    for c, r in pairs:
        key = json.dumps(c["id"][:1] if c["id"][0] != "directed" else c["id"][:2])
        if key not in canon or r is canon[key]:
            continue
        if canon[key]["outcome"].get("phase") == "build" or canon[key]["outcome"]["r"] == "ScenarioError":
            continue
        cs, cr = canon_of(canon[key]["item"])
        items.append({"canon": cs, "canon_r": cr, "compare": cr == "ok", "ev": r["item"]["ev"]})
        owners.append((c, r, canon[key]))
    viols, states, trans = judge_det(items)
    # reference-semantics clauses of every involved run (attribution to known findings)
    ref_items = [r["item"] for c, r, k in owners] + [k["item"] for k in canon.values() if k["outcome"].get("phase") != "build"]
    ref_verdicts, ref_info = monitor.judge(ref_items)
    clauses = {}
    for it, v in zip(ref_items, ref_verdicts):
        clauses[json.dumps(it["id"])] = sorted({c for _, c in v["viol"]})
    # execution-graph layer (debug variants): EG_* clauses are conformance drift, never a verdict
    eg_runs = sum(1 for it in ref_items if any(e["k"] == "EG" for e in it["ev"]))
    eg_bad = [(it["id"], cl) for it, v in zip(ref_items, ref_verdicts) for _, cl in v["viol"] if cl.startswith("EG_")]
    for ident, cl in eg_bad[:5]:
        print(f"DRIFT execution graph (debug mode) case={json.dumps(ident)} clause={cl} (recorded graph and reference history differ; not a verdict)")
    findings = []
    hashes = set()
    for (c, r, k), vs in zip(owners, viols):
        hashes.add(checklib.trace_hash(r["item"]))
        if not vs:
            continue
        l, clause, rest = vs[0]
        extra = {"variant": c["id"][-1], "canonical_outcome": k["outcome"], "ref_clauses_variant": clauses.get(json.dumps(c["id"]), []),
                 "ref_clauses_canonical": clauses.get(json.dumps(k["item"]["id"]), []), "where": rest, "diff": first_diff(k["item"], r["item"]),
                 "canonical_flags": {x: k["item"]["scn"].get(x) for x in ("lazy", "cache")}}
        findings.append(checklib.Finding("C04", clause, c, r, l, json.dumps(extra), extra=extra))
    import collections

    cov = {
        "states": states + ref_info["states"], "transitions": trans + ref_info["generated"],
        "traces_validated_against_impl": len(items),
        "samples": [{"case": owners[0][0], "canonical_observations": canon_of(owners[0][2]["item"])[0]}] if owners else [],
        "evaluations": len(items), "distinct_nontrivial": len(hashes),
        "execution_graphs_checked": eg_runs, "execution_graph_drift": len(eg_bad),
        "rule": "one evaluation = one run of a scenario under a variant (reply schedule / start order / connect order / lazy / cache / debug / LocalProxy / "
                "RemoteProxy-over-fake-streams) compared by TLC (DetTrace) with the canonical run of the same scenario; behaviours are deterministic functions of "
                "(simulator, request kind, step index); distinct = distinct observable histories of the variant runs",
        "exhaustive": False,
        "variants": dict(collections.Counter(c["id"][-1] for c, r, k in owners)),
        "scenarios": len(canon),
        "checker_cmd": "tlc -workers 1 -config DetTrace.cfg DetTrace (TRACE_FILE=<batch>)",
    }
    assumptions = ["deterministic simulators: replies are a function of (simulator, request kind, step index)",
                   "parallel connections of one attribute pair with different delays are excluded (the slot content is inherently ambiguous between them)",
                   "debug mode, LocalProxy and RemoteProxy are the shipped code; sockets are replaced by hand-fed streams"]
    return checklib.conclude("C04", tier, seed, findings, cov, t0, assumptions)

"""./check <Cxx> --replay <file>: re-execute a recorded violation deterministically and judge it again."""
from __future__ import annotations

import json

from harness import explore, monitor


def run(prop, path):
    rep = json.load(open(path))
    if rep.get("kind") and rep["kind"] != "sched":
        mod = __import__("checks." + rep["kind"], fromlist=["replay"])
        return mod.replay(prop, rep)
    case = rep["case"]
    if rep.get("delivered"):
        case = dict(case)
        case["policy"] = {"kind": "replay", "delivered": rep["delivered"]}
    case["keep_trace"] = True
    res = explore.run_case(case)
    verdicts, _ = monitor.judge([res["item"]])
    v = verdicts[0]
    print(f"replay of {path}: outcome={res['outcome']} schedule deviations={res['deviations']}")
    for i, e in enumerate(res["item"]["ev"], 1):
        print(f"  {i:3d} {json.dumps(e)}")
    own = [(l, c) for l, c in v["viol"] if c.startswith(prop + "_")]
    for l, c in v["viol"]:
        print(f"  violated clause {c} at event {l}")
    if v["detail"]:
        print(f"  detail: {v['detail']}")
    if own:
        print(f"VIOLATION property={prop} replay={path}")
        return 1
    print(f"{prop}: no violation of this property on the replayed execution")
    return 0

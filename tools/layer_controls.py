#!/venv/bin/python
"""Negative controls of the drift-only layers (they never change a check's exit code, so tools/selftest.py cannot see them):
every mutants/info_*.patch must make the information-request layer (IR_*) report drift, every mutants/life_*.patch (and seed C11-i:
group not restored after an exception) must make WorldLifeTrace reject a script.  Runs on scratch worktrees through MOSAIK_REPO; /repo is
never touched.  usage: layer_controls.py            (prints one line per control; exit 1 if one of them stayed silent)"""
import glob, json, os, subprocess, sys, tempfile

verif = os.path.dirname(os.path.dirname(os.path.abspath(__file__)))
PROBE = r'''
import sys, json, collections
sys.path.insert(0, %r)
kind = sys.argv[1]
if kind == "info":
    from harness import explore, sched_checks
    pairs = explore.run_generated("random", {"fam": {"p_async": 0.5, "weak": 0.2}}, (0, 200))
    f, st = sched_checks.judge_results("C16", pairs)
    print("RESULT", json.dumps({"drift": st["info_drift_count"], "clauses": sorted({d["clause"] for d in st["info_drift"]}), "answers": sum(st["info_requests"].values())}))
else:
    from harness import life
    r = life.layer("quick", 0)
    print("RESULT", json.dumps({"drift": r["rejected"], "clauses": sorted({str(d["action"]) for d in r["drift"]}), "answers": r["calls_validated"]}))
''' % verif


def probe(kind, patch):
    wt = tempfile.mkdtemp(prefix="layerctl.", dir="/tmp")
    os.rmdir(wt)
    subprocess.run(["git", "-C", "/repo", "worktree", "add", "-q", wt, "HEAD"], check=True)
    try:
        if patch:
            r = subprocess.run(["git", "-C", wt, "apply", patch], capture_output=True, text=True)
            if r.returncode:
                return {"error": "patch does not apply"}
        r = subprocess.run(["/venv/bin/python", "-c", PROBE, kind], cwd=verif, env=dict(os.environ, MOSAIK_REPO=wt, PYTHONHASHSEED="0"), capture_output=True, text=True)
        line = [l for l in r.stdout.splitlines() if l.startswith("RESULT ")]
        return json.loads(line[-1][7:]) if line else {"error": (r.stdout + r.stderr)[-300:]}
    finally:
        subprocess.run(["git", "-C", "/repo", "worktree", "remove", "--force", wt], capture_output=True)


bad = 0
controls = [("info", None), ("life", None)] + [("info", p) for p in sorted(glob.glob(os.path.join(verif, "mutants", "info_*.patch")))] \
    + [("life", p) for p in sorted(glob.glob(os.path.join(verif, "mutants", "life_*.patch")))] + [("life", os.path.join(verif, "seeded", "C11-i", "patch.diff"))]
for kind, patch in controls:
    res = probe(kind, patch)
    name = os.path.basename(os.path.dirname(patch)) + "/" + os.path.basename(patch) if patch and "seeded" in patch else os.path.basename(patch) if patch else "(unchanged tree)"
    want = bool(patch) and "info_no_edge_for_connect_one" not in name  # (that one is an equivalent mutant: connect() adds the same edge again)
    ok = "error" not in res and (res["drift"] > 0) == want
    bad += not ok
    print(f"{'ok ' if ok else 'BAD'} {kind:4s} {name:45s} {json.dumps(res)[:200]}")
sys.exit(1 if bad else 0)

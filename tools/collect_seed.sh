#!/bin/bash
# collect a sub-agent's change from its scratch worktree into seeded/<id>/ and remove the worktree
# usage: collect_seed.sh C18-f
set -e
id=$1; wt=/tmp/wt/$id; d=/verif/seeded/$id
mkdir -p $d
git -C $wt diff -- mosaik > $d/patch.diff
cp $wt/demo_*.py $d/ 2>/dev/null || true
cp $wt/NOTES_*.md $d/NOTES.md 2>/dev/null || true
test -s $d/patch.diff || { echo "empty patch"; exit 1; }
git -C /repo worktree remove --force $wt
echo collected $id: $(wc -l < $d/patch.diff) patch lines, $(ls $d)

#!/venv/bin/python
"""Developer tool: run the random family over a seed range, judge with RefTrace, summarise clauses.
usage: probe.py LO HI [key=value ...]   (fam.* -> family kwargs, early=, show=<clause>, n=<examples>)"""
import sys, json, collections, time
sys.path.insert(0, '/verif')
from harness import explore, monitor, sched_checks

def main():
    lo, hi = int(sys.argv[1]), int(sys.argv[2])
    fam, pol, beh, show, nshow = {}, {}, {}, None, 1
    for a in sys.argv[3:]:
        k, _, v = a.partition('=')
        try: v = json.loads(v)
        except Exception: pass
        if k.startswith('fam.'): fam[k[4:]] = v
        elif k.startswith('beh.'): beh[k[4:]] = v
        elif k == 'early': pol['early'] = v
        elif k == 'policy': pol['kind'] = v
        elif k == 'show': show = v
        elif k == 'n': nshow = v
    t0 = time.time()
    pairs = explore.run_generated('random', {'fam': fam, 'policy': pol, 'behaviour': beh}, (lo, hi))
    t1 = time.time()
    findings, st = sched_checks.judge_results('C', pairs, prefixes=('C',))
    print(f"{st['executions']} executions in {t1-t0:.1f}s, judged in {time.time()-t1:.1f}s; {st['stats']}")
    for c, n in sorted(st['all_clauses_seen'].items()): print(f"  {n:6d} {c}")
    by = collections.defaultdict(list)
    for f in findings: by[f.clause].append(f)
    for c, fs in by.items():
        if show and show != c and show != 'all': continue
        for f in fs[:nshow]:
            print('----', c, f.case['id'], 'event', f.l)
            print(json.dumps(f.case['scn']))
            print('detail:', f.detail)
            if show:
                for i, e in enumerate(f.result['item']['ev'], 1): print(i, json.dumps(e))
                print(f.result['delivered'])
main()

#!/venv/bin/python
"""Generate the negative-control mutant corpus /verif/mutants/*.patch from /repo HEAD
(each mutant = one small edit; applied only to scratch worktrees by tools/try_patch.py)."""
import os, subprocess, sys, json

MUTANTS = [
 # name, file, old, new, expected properties
 ("has_reached_instead_of_passed", "mosaik/scheduler.py", "futures.append(pre_sim.progress.has_passed(next_step, shift=delay))", "futures.append(pre_sim.progress.has_reached(next_step, shift=delay))", ["C01"]),
 ("no_lazy_wait", "mosaik/scheduler.py", "    if lazy_stepping:\n        for suc_sim, adapt in sim.successors.items():", "    if False:\n        for suc_sim, adapt in sim.successors.items():", ["C10"]),
 ("no_dedup_in_schedule_step", "mosaik/simmanager.py", "        if tiered_time in self.next_steps:\n            return tiered_time\n", "", ["C02"]),
 ("prune_off_by_one", "mosaik/scheduler.py", "                if time >= keep_from", "                if time > keep_from", ["C03"]),
 ("no_newer_step_wakeup", "mosaik/simmanager.py", "        if is_earlier:\n            self.newer_step.set()", "        if is_earlier:\n            pass", ["C05", "C02"]),
 ("max_advance_off_by_one", "mosaik/scheduler.py", "return min([*ancs_next_steps, *own_next_step, until + 1]) - 1", "return min([*ancs_next_steps, *own_next_step, until + 1])", ["C07"]),
 ("max_advance_ignores_in_flight", "mosaik/scheduler.py", "        if anc_sim.current_step is not None and anc_sim is not sim:", "        if False:", ["C07"]),
 ("advance_only_self", "mosaik/scheduler.py", "            for isim in world.sims.values():\n                advance_progress(isim, world)", "            advance_progress(sim, world)", ["C05"]),
 ("accept_next_step_equal_time", "mosaik/scheduler.py", "        if next_step_time <= sim.current_step.time:", "        if next_step_time < sim.current_step.time:", ["C13"]),
 ("loop_guard_off_by_one", "mosaik/scheduler.py", "                t >= world.max_loop_iterations for t in sim.current_step.tiers[1:]", "                t > world.max_loop_iterations for t in sim.current_step.tiers[1:]", ["C09"]),
 ("no_successors_to_wait_for", "mosaik/scheduler.py", "    for suc_sim, adapt in sim.successors_to_wait_for.items():\n        futures.append(suc_sim.progress.has_reached(next_step + adapt))", "", ["C16"]),
 ("buffer_due_strict", "mosaik/simmanager.py", "while len(self.input_queue) > 0 and self.input_queue[0][0] <= step:", "while len(self.input_queue) > 0 and self.input_queue[0][0] < step:", ["C03"]),
 ("trigger_delay_ignored", "mosaik/scheduler.py", "                dest_sim.schedule_step(sim.output_time + delay)", "                dest_sim.schedule_step(sim.output_time + dest_sim.from_world_time if len(sim.output_time) == 1 else sim.output_time + delay)", ["C02", "C01"]),
 ("revert_D2_simgroup_eq", "mosaik/scenario.py", "@dataclass(eq=False)\nclass SimGroup:", "@dataclass\nclass SimGroup:", ["C11", "C01", "C06"]),
 ("revert_D1_lt", "mosaik/tiered_time.py", "            if s > o:\n                if o_add_s_ext:", "            if o > s:\n                if o_add_s_ext:", ["C08"]),
 ("revert_D4_progress", "mosaik/scheduler.py", "        if pre_sim.current_step is not None\n    )", "        if False\n    )", ["C05", "C02"]),
 ("revert_D15_await_until", "mosaik/scheduler.py", "                await_time = min(await_time, sim.next_steps[0])", "                await_time = sim.next_steps[0]", ["C05"]),
 ("revert_D17_alias", "mosaik/scheduler.py", "            eid: {attr: dict(vals) for attr, vals in attrs.items()}\n            for eid, attrs in sim.persistent_inputs.items()", "            eid: attrs\n            for eid, attrs in sim.persistent_inputs.items()", ["C03", "C04"]),
 ("revert_D18_cache_order", "mosaik/simmanager.py", "            return self.outputs[max(data_times)]", "            return self.outputs[data_times[-1]]", ["C03", "C04"]),
 ("revert_D5_assert", "mosaik/util.py", "            dest_set.remove(dest)\n            max_i -= 1\n", "            dest_set.remove(dest)\n            max_i -= 1\n            assert max_i >= 0\n", ["C18"]),
 ("revert_D9_tb_none", "mosaik/scheduler.py", "    if sim.type == 'time-based' and next_step_time is None:\n        raise SimulationError(\n            'A time-based simulator must always return a next step, but simulator '\n            f'\"{sim.sid}\" returned None'\n        )", "    if sim.type == 'time-based':\n        assert next_step_time, 'A time-based simulator must always return a next step'", ["C13"]),
 ("revert_D8_set_event", "mosaik/simmanager.py", "            sim.schedule_step(TieredTime(event_time) + sim.from_world_time)", "            sim.schedule_step(TieredTime(event_time))", ["C17"]),
 ("setup_done_always_sent", "mosaik/adapters.py", "    if version < [2, 2]:\n        proxy = V2ToV1Adapter(proxy)", "    if version < [2]:\n        proxy = V2ToV1Adapter(proxy)", ["C15"]),
 ("weak_init_not_required", "mosaik/scenario.py", "        if (time_shifted or weak) and dest_attr in dest.model_mock.measurement_inputs:", "        if time_shifted and dest_attr in dest.model_mock.measurement_inputs:", ["C11"]),
 ("hybrid_nonpersistent_inferred", "mosaik/scenario.py", "    default_events = None if type == 'event-based' else empty\n    event_outputs", "    default_events = None if type != 'time-based' else empty\n    event_outputs", ["C12"]),
 ("cycle_check_ignores_async", "mosaik/scenario.py", "        dest_sim.input_delays[src_sim] = delay\n\n    def connect(", "        dest_sim.input_delays.setdefault(src_sim, delay)\n\n    def connect(", ["C06", "C16"]),
 ("stop_skips_last_sim", "mosaik/scenario.py", "            for sim in self.sims.values():\n                self.loop.run_until_complete(sim.stop())", "            for sim in list(self.sims.values())[:max(1, len(self.sims) - (0 if getattr(self, 'tqdm', None) is None or self.tqdm.n >= getattr(self, 'until', 0) else 1))]:\n                self.loop.run_until_complete(sim.stop())", ["C14"]),
 ("revert_D14_init_every_entry", "mosaik/scenario.py", "                for time in range(-int(time_shifted), 0) or [0]:", "                for time in [-int(time_shifted)]:", ["C03"]),
 ("revert_D25_rt_start", "mosaik/scheduler.py", "    for sim in world.sims.values():\n        # A simulator's progress can be advanced by another simulator's\n        # process before its own process has started.\n        sim.rt_start = perf_counter()\n", "", ["C17"]),
 ("evenly_shuffle_once", "mosaik/util.py", "    while pos < src_size:\n        random.shuffle(dest_set)\n        for src, dest in zip(src_set[pos:], dest_set):", "    random.shuffle(dest_set)\n    while pos < src_size:\n        for src, dest in zip(src_set[pos:], dest_set + dest_set[:1]):", ["C18"]),
 ("progress_forward_delete", "mosaik/progress.py", "        for index in reversed(range(0, len(self._futures))):\n            trigger_spec, future = self._futures[index]", "        for index in range(0, len(self._futures)):\n            if index >= len(self._futures):\n                break\n            trigger_spec, future = self._futures[index]", ["C05"]),
 ("progress_passed_is_reached", "mosaik/progress.py", "        if needs_to_pass and time_at_dest > target:", "        if needs_to_pass and time_at_dest >= target:", ["C01"]),
]

def main():
    out = os.path.join(os.path.dirname(os.path.dirname(os.path.abspath(__file__))), "mutants")
    os.makedirs(out, exist_ok=True)
    wt = "/tmp/wt/mkmut"
    subprocess.run(["git", "-C", "/repo", "worktree", "remove", "--force", wt], capture_output=True)
    subprocess.run(["git", "-C", "/repo", "worktree", "add", "-q", wt, "HEAD"], check=True)
    index = []
    try:
        for name, f, old, new, props in MUTANTS:
            path = os.path.join(wt, f)
            s = open(path).read()
            if s.count(old) != 1:
                print("SKIP (pattern count %d): %s" % (s.count(old), name)); continue
            open(path, "w").write(s.replace(old, new))
            r = subprocess.run([sys.executable, "-m", "py_compile", path], capture_output=True)
            d = subprocess.run(["git", "-C", wt, "diff"], capture_output=True, text=True).stdout
            subprocess.run(["git", "-C", wt, "checkout", "--", "."], check=True)
            if r.returncode != 0:
                print("SKIP (does not compile):", name); continue
            open(os.path.join(out, name + ".patch"), "w").write(d)
            index.append({"name": name, "expected": props})
        json.dump(index, open(os.path.join(out, "index.json"), "w"), indent=1)
        print(len(index), "mutants written")
    finally:
        subprocess.run(["git", "-C", "/repo", "worktree", "remove", "--force", wt], capture_output=True)

main()

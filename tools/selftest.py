#!/venv/bin/python
"""Negative controls: every mutant of /verif/mutants must turn the check(s) of the property it breaks red
(run on scratch worktrees; /repo is never touched).  usage: selftest.py [name ...] [--jobs N]"""
import concurrent.futures as cf, json, os, subprocess, sys

verif = os.path.dirname(os.path.dirname(os.path.abspath(__file__)))
idx = json.load(open(os.path.join(verif, "mutants", "index.json")))
names = [a for a in sys.argv[1:] if not a.startswith("--")]
jobs = 3
for a in sys.argv[1:]:
    if a.startswith("--jobs="): jobs = int(a.split("=")[1])
todo = [m for m in idx if not names or m["name"] in names]

def one(m):
    r = subprocess.run([os.path.join(verif, "tools", "try_patch.py"), os.path.join(verif, "mutants", m["name"] + ".patch"), "--props", ",".join(m["expected"])],
                       capture_output=True, text=True)
    lines = [l for l in r.stdout.splitlines() if l[:1] == "C"]
    caught = [l.split(":")[0] for l in lines if "rc=1" in l]
    return m, lines, caught

with cf.ThreadPoolExecutor(max_workers=jobs) as ex:
    for m, lines, caught in ex.map(one, todo):
        status = "CAUGHT" if caught else "MISSED"
        print(f"{status:7s} {m['name']:38s} expected={m['expected']} caught_by={caught}")
        for l in lines: print("        ", l[:230])
        sys.stdout.flush()

#!/venv/bin/python
"""Confirm a seeded change: in a scratch worktree of /repo the demonstration must pass without the
patch and fail with it, and the repository's suite must still pass with it.  Writes/updates meta.json.
usage: verify_seeded.py <seeded dir> --property C03 --needs "<what it needs to manifest>" [--checks C03,C04]"""
import argparse, glob, json, os, shutil, subprocess, sys, tempfile, time

ap = argparse.ArgumentParser()
ap.add_argument("dir"); ap.add_argument("--property", required=True); ap.add_argument("--needs", default=""); ap.add_argument("--checks", default="")
ap.add_argument("--nosuite", action="store_true")
a = ap.parse_args()
d = os.path.abspath(a.dir)
demo = sorted(glob.glob(os.path.join(d, "demo_*.py")))[0]
wt = tempfile.mkdtemp(prefix="seedverify.", dir="/tmp"); os.rmdir(wt)
subprocess.run(["git", "-C", "/repo", "worktree", "add", "-q", wt, "HEAD"], check=True)
meta = {"property": a.property, "needs": a.needs, "ran": []}
try:
    env = dict(os.environ, PYTHONPATH=wt)
    shutil.copy(demo, wt)
    def run_demo():
        try:
            r = subprocess.run(["/venv/bin/python", os.path.basename(demo)], cwd=wt, env=env, capture_output=True, text=True, timeout=600)
            return r.returncode, (r.stdout + r.stderr)[-400:]
        except subprocess.TimeoutExpired:
            return 124, "timeout"
    rc0, out0 = run_demo()
    meta["ran"].append({"cmd": f"demo on unchanged HEAD ({os.path.basename(demo)})", "rc": rc0})
    r = subprocess.run(["git", "-C", wt, "apply", os.path.join(d, "patch.diff")], capture_output=True, text=True)
    if r.returncode: print("patch does not apply", r.stderr); sys.exit(2)
    rc1, out1 = run_demo()
    meta["ran"].append({"cmd": "demo with patch.diff applied", "rc": rc1, "tail": out1[-300:]})
    if not a.nosuite:
        t0 = time.time()
        r = subprocess.run(["/venv/bin/python", "-m", "pytest", "-q", "-p", "no:cacheprovider", "--timeout=900", "-q"], cwd=wt, env=env, capture_output=True, text=True)
        last = r.stdout.strip().splitlines()[-1] if r.stdout.strip() else ""
        meta["ran"].append({"cmd": "repository test suite with patch.diff applied", "rc": r.returncode, "summary": last})
        print("suite:", r.returncode, last)
    print("demo without patch rc =", rc0, "| with patch rc =", rc1)
    meta["confirmed"] = rc0 == 0 and rc1 != 0 and (a.nosuite or meta["ran"][-1]["rc"] == 0)
finally:
    subprocess.run(["git", "-C", "/repo", "worktree", "remove", "--force", wt], capture_output=True)
if a.checks:
    r = subprocess.run([os.path.join(os.path.dirname(os.path.abspath(__file__)), "try_patch.py"), os.path.join(d, "patch.diff"), "--props", a.checks], capture_output=True, text=True)
    lines = [l for l in r.stdout.splitlines() if l[:1] == "C"]
    meta["checks"] = lines
    meta["caught_by"] = [l.split(":")[0] for l in lines if "rc=1" in l]
    print("\n".join(lines))
old = {}
mp = os.path.join(d, "meta.json")
if os.path.exists(mp): old = json.load(open(mp))
old.update(meta)
json.dump(old, open(mp, "w"), indent=1)
print("confirmed:", meta["confirmed"])

#!/venv/bin/python
"""Generate seeded/README.md from seeded/*/meta.json and the last selftest output (if given)."""
import glob, json, os, sys
verif = os.path.dirname(os.path.dirname(os.path.abspath(__file__)))
rows = []
for mp in sorted(glob.glob(os.path.join(verif, "seeded", "*", "meta.json"))):
    m = json.load(open(mp)); d = os.path.basename(os.path.dirname(mp))
    rows.append((d, m))
out = ["# Seeded property-breaking changes", "",
       "Each directory holds `patch.diff` (a change to mosaik that compiles and passes the repository's suite), the demonstration written by its author,",
       "and `meta.json` (which property it breaks, what it needs to manifest, what was run to confirm it, which checks caught it).",
       "The changes of origin *independent sub-agent* were written by agents that were given only the property text and a scratch worktree - nothing from /verif.",
       "All were confirmed in a scratch worktree by `tools/verify_seeded.py` (demo passes on HEAD, fails with the patch, suite passes with the patch) and run against",
       "the checks with `tools/try_patch.py` (scratch worktree + `MOSAIK_REPO`; /repo itself is never modified).", "",
       "| id | property | needs, in order to manifest | confirmed | caught by |", "|---|---|---|---|---|"]
for d, m in rows:
    out.append(f"| {d} | {m.get('property')} | {m.get('needs','')} | {'yes' if m.get('confirmed') else 'NO'} | {', '.join(m.get('caught_by', [])) or ('neutralised by the repair of D34' if 'NEUTRALISED' in m.get('note', '') else '**missed**')} |")
st = os.path.join(verif, "mutants", "selftest_last.txt")
if os.path.exists(st):
    out += ["", "# Negative-control mutants (`mutants/*.patch`, `tools/selftest.py`)", "", "```"] + [l.rstrip() for l in open(st) if l.startswith(("CAUGHT", "MISSED"))] + ["```"]
open(os.path.join(verif, "seeded", "README.md"), "w").write("\n".join(out) + "\n")
print("wrote seeded/README.md with", len(rows), "seeded changes")

#!/venv/bin/python
"""Run checks against a patched scratch copy of /repo (never /repo itself):
   try_patch.py <patch> [--props C01,C05] [--tier quick] [--suite]
Applies the patch to a fresh git worktree under /tmp, runs the checks with MOSAIK_REPO pointing
at it (evidence/replays go to a temp dir), optionally the repository's test suite, prints one line
per check, removes the worktree."""
import argparse, json, os, shutil, subprocess, sys, tempfile, time

def main():
    ap = argparse.ArgumentParser()
    ap.add_argument("patch"); ap.add_argument("--props", default=""); ap.add_argument("--tier", default="quick"); ap.add_argument("--suite", action="store_true")
    ap.add_argument("--keep", action="store_true")
    a = ap.parse_args()
    verif = os.path.dirname(os.path.dirname(os.path.abspath(__file__)))
    wt = tempfile.mkdtemp(prefix="trypatch.", dir="/tmp")
    os.rmdir(wt)
    subprocess.run(["git", "-C", "/repo", "worktree", "add", "-q", wt, "HEAD"], check=True)
    tmp = tempfile.mkdtemp(prefix="tryev.", dir="/tmp")
    res = {}
    try:
        r = subprocess.run(["git", "-C", wt, "apply", os.path.abspath(a.patch)], capture_output=True, text=True)
        if r.returncode != 0:
            print("PATCH DOES NOT APPLY:", r.stderr[:300]); return 2
        env = dict(os.environ, MOSAIK_REPO=wt, VERIF_EVIDENCE_DIR=os.path.join(tmp, "ev"), VERIF_REPLAY_DIR=os.path.join(tmp, "rp"), PYTHONHASHSEED="0")
        if a.suite:
            t0 = time.time()
            r = subprocess.run(["/venv/bin/python", "-m", "pytest", "-q", "-p", "no:cacheprovider", "--timeout=900", "-x", "-q"], cwd=wt,
                               env=dict(os.environ, PYTHONPATH=wt), capture_output=True, text=True)
            print(f"suite: rc={r.returncode} {r.stdout.strip().splitlines()[-1] if r.stdout.strip() else ''} ({time.time()-t0:.0f}s)")
            res["suite"] = r.returncode
        for p in [x for x in a.props.split(",") if x]:
            t0 = time.time()
            r = subprocess.run([os.path.join(verif, "check"), p, "--tier", a.tier], cwd=verif, env=env, capture_output=True, text=True)
            lines = [l for l in r.stdout.splitlines() if l.startswith(("VIOLATION", "KNOWN-FINDING", "DRIFT", "MODEL-", "MACHINERY")) or l.startswith("  clause=")]
            viol = [l for l in lines if l.startswith("VIOLATION")]
            clauses = sorted({l.split()[0] for l in lines if l.startswith("  clause=")})
            drift = sum(1 for l in lines if l.startswith("DRIFT"))
            print(f"{p}: rc={r.returncode} violations={len(viol)} {clauses} drift={drift} ({time.time()-t0:.0f}s)")
            if r.returncode == 2:
                print(r.stdout[-1500:], r.stderr[-500:])
            res[p] = r.returncode
        return 0
    finally:
        if not a.keep:
            subprocess.run(["git", "-C", "/repo", "worktree", "remove", "--force", wt], capture_output=True)
            shutil.rmtree(tmp, ignore_errors=True)
sys.exit(main())

#!/venv/bin/python
"""Regenerate /verif/MANIFEST.json from the table below (single place to edit)."""
import json, os, sys
sys.path.insert(0, os.path.dirname(os.path.dirname(os.path.abspath(__file__))))

BASELINE_OFF = "cd /repo && env -u MOSAIK_VERIF_TRACE /venv/bin/python -m pytest -ra -q -p no:cacheprovider --timeout=900 --continue-on-collection-errors"

SCHED_NOTE = ("Trusted base: TLC, the harness's scripted asynchronous proxies and virtual-time asyncio loop (CPython's BaseEventLoop with I/O polling and clock replaced), "
              "the observable-event recorder. Bounded: scenario families of 2-11 simulators (mostly 2-5), simulation times up to ~30 (one profile around 1000/86400); "
              "the families vary topology, groups, all connection kinds and combinations, reply interleavings, start and connect orders, lazy / cache / debug, "
              "transports (scripted asynchronous, shipped LocalProxy incl. old API and generator style, shipped RemoteProxy over fake streams), output values, "
              "identifier shapes and the public connect entry points (DESIGN.md 11.6 lists what each seeded change forced in); nothing is proved for arbitrary sizes.")

CHECKS = {
 "C01": ("§6 C01", "TLC explores the implementation-shaped spec MosaikSched exhaustively on small scenario configs with the reference clauses C01_* (consumer form, producer form, no trigger delivered into the past) as invariants; TLC behaviours are replayed into the real scheduler; thousands of real executions under controlled reply interleavings (incl. sibling groups, weak/shifted/async connections) are judged by TLC against the reference semantics.",
         "TLC model checking of MosaikSched + TLC trace validation (RefTrace) of real executions under enumerated/seeded reply schedules"),
 "C02": ("§6 C02", "Demand bookkeeping of the reference semantics (every demanded tiered time executed exactly once, in order, none at/after until, none lost at the end) as invariants of MosaikSched under TLC and as trace predicates on real executions with heap-stressing behaviours (future-dated outputs, earlier steps inserted while ancestors are in flight).",
         "TLC model checking + TLC trace validation of real executions"),
 "C03": ("§6 C03", "ExpectedInputs oracle of the reference semantics (tiered due times, persistent vs. event semantics, initial data, set_data) evaluated by TLC on every step of every real execution for cache x lazy x schedules; the same oracle is an invariant of the data-plane part of MosaikSched.",
         "TLC trace validation against the ExpectedInputs oracle + TLC model checking of the data plane"),
 "C05": ("§6 C05", "Run outcome predicate: every accepted scenario with compliant always-answering scripted simulators must end with run() returning; the virtual loop gives a sound deadlock verdict (idle loop, nothing outstanding, run() pending); internal-consistency exceptions are violations. TLC checks deadlock-freedom and termination of MosaikSched.",
         "TLC deadlock/liveness checking of MosaikSched + outcome predicate on real executions under controlled schedules"),
 "C07": ("§6 C07", "Promise/cause predicate of the reference semantics: causes are tracked transitively through triggers and self-schedules; every step inside an earlier promise window must be caused by the simulator itself; m <= until, m = until without trigger inputs.",
         "TLC trace validation (cause tracking) + TLC model checking"),
 "C09": ("§6 C09", "Loop-guard outcome predicate in both directions (no sub-step >= bound is ever executed; the guard error names a simulator whose minimal outstanding demand exceeds the bound) on weak-loop families with bounds around the loop length.",
         "TLC trace validation of real executions + TLC model checking of the loop-guard branch"),
 "C10": ("§6 C10", "Outstanding-consumer predicate at every step begin of lazy runs: no direct consumer has an outstanding (demanded or in-flight) step earlier than the adapted step time.",
         "TLC trace validation + TLC model checking"),
 "C13": ("§6 C13", "Malformed-reply predicate: after a malformed reply (enumerated kinds x simulator x step index x schedules) no demand is created, the simulator is never stepped again, run() fails with an error naming it.",
         "fault enumeration judged by TLC trace validation"),
 "C16": ("§6 C16", "set_data delivery (exactly once, next step, right source key), ordering (server does not begin a step while a requester has an earlier step in flight) and refusal (ScenarioError without async connection) predicates over agent families with several step-size ratios.",
         "TLC trace validation of real executions with call-backs"),
}

NOT_YET = {}

PURE_NOTE = ("Trusted base: TLC and the table recorder (checks/pure.py), which calls the real functions of /repo's working tree. "
             "Exhaustive only within the bounded input space named in the evidence's coverage.rule.")

CHECKS.update({
 "C04": ("§6 C04", "Equality of every simulator's (time, inputs) sequence with the canonical run, decided by TLC (DetTrace.tla) for every variant run: reply interleavings, start orders, connect order, lazy off, cache off, debug on, shipped LocalProxy, shipped RemoteProxy over fake streams; all runs are additionally judged by the reference semantics so that differences are attributed to open findings (D16, D20) by reviewed signatures.",
         "TLC trace comparison (DetTrace) of real executions across schedules and configurations"),
 "C06": ("§6 C06", "Semantic definition of an unresolved cycle (graph-theoretic, cross-checked inside the spec against the delay-algebra formulation) in Cycles.tla; the verdict of the real World.run() is recorded for every connection multigraph over 2-3 simulators x group placements (exhaustive within the bound) plus seeded 3-4 simulator scenarios and validated by TLC row by row, including the cycle named in the error.",
         "exhaustive bounded enumeration + TLC table validation against Cycles.tla"),
 "C08": ("§6 C08", "Pointwise (semantic) order of delays in TieredOrder.tla; results of the real <, ==, >, <=, min, + on all 216 intervals (every same-class pair, every type-correct sum, every time+interval) validated by TLC: trichotomy, converse, transitivity, soundness w.r.t. arrival times, raising only on incomparable pairs, min order-independent, + equals the specification's Compose, action law, monotonicity; associativity of Compose model-checked on the bounded domain.",
         "exhaustive table validation by TLC against TieredOrder.tla"),
 "C11": ("§6 C11", "ConnectRules.tla states when connect() must reject; 12k real World.connect() calls (placements incl. sibling and cousin groups x attribute kinds x time_shifted x weak x initial data x any_inputs x multi-pair calls) validated by TLC; rejected calls are followed by a run compared with the scenario containing only the accepted pairs (no data-flow left behind). Run-time distinctness of sibling groups is judged by C01.",
         "exhaustive cross-product table validation by TLC against ConnectRules.tla"),
 "C12": ("§6 C12", "Attrs.tla gives a DECLARATIVE classification rule (accept iff exactly one pair of partitions agrees with the given lists and the type's defaults), deliberately not the code's procedure; every description over a small attribute universe x any_inputs x 3 types and every finite/co-finite set-algebra expression is validated by TLC against it.",
         "exhaustive table validation by TLC against Attrs.tla"),
 "C14": ("§6 C14", "Crash points x failure kinds x transports (shipped RemoteProxy+Channel over fake streams, AsyncProxy, shipped LocalProxy) x schedules on the real run()/shutdown(); TLC judges every execution with the C14 clauses of the reference semantics (no hang, error or logged remote error, every other simulator stopped exactly once, loop closed, nothing pending); the shutdown protocol incl. the open findings D11/D23 is model-checked in MosaikFaults.tla.",
         "fault enumeration judged by TLC trace validation + TLC model checking of MosaikFaults.tla"),
 "C15": ("§6 C15", "Adapters.tla states rejection and the per-version request shape; 384 rows incl. failing-step rows (16 version strings x explicit api_version x remote stub behind the shipped RemoteProxy / in-process stubs with v3 and old signatures x type present/absent) with the exact requests received and the comparison with a 3.0 stub are validated by TLC.",
         "exhaustive table validation by TLC against Adapters.tla"),
 "C17": ("§6 C17", "Real-time runs on a virtual strictly increasing clock (no flakiness): pacing lower bound at every step begin, completion without internal error (incl. simulators in groups), set_event semantics (demand created / ignored with warning / refused outside real-time mode), no too-slow report for instant runs (open finding D19), rt_strict runs equal to a prefix of the non-strict runs (DetTrace); pacing/polling/set_event mechanism model-checked in MosaikRT.tla; external set_event calls at arbitrary wall-clock times: implementation-shaped polling model MosaikRTPoll.tla (negative control RefreshOnWake=FALSE) replayed into the code and validated against recorded executions (RTPollTrace.tla).",
         "TLC trace validation on a virtual clock + TLC model checking of MosaikRT.tla and MosaikRTPoll.tla (bound to the code by replaying all terminal schedules and by RTPollTrace validation of recorded executions)"),
 "C18": ("§6 C18", "BulkConnect.tla models the helpers as nondeterministic processes (invariants + termination model-checked); the random source of mosaik.util is scripted so that ALL choice sequences for small sizes plus seeded larger runs (incl. exactly filled capacities) go through the real functions; TLC replays every recorded call sequence against the specification's rules.",
         "TLC model checking of BulkConnect.tla + exhaustive choice-sequence enumeration validated by TLC"),
})
EXTRA = {
 "C04": "Trusted base: TLC, the harness transports (the shipped LocalProxy / RemoteProxy / Channel code runs unchanged; sockets replaced by hand-fed streams). Deterministic behaviours are functions of (simulator, request kind, step index). Known findings are identified by signatures in harness/signatures.py.",
 "C14": "Trusted base: TLC, the fake-stream transport. The OS-level clause (no process or socket left behind) is not observed: sockets/processes are replaced by streams fed by the harness.",
 "C17": "Trusted base: TLC, the virtual clock (mosaik.scheduler.perf_counter replaced by the harness). Jitter of a real clock is out of scope.",
}

# what the second session added (DESIGN.md §12): appended to the texts above
ADD = {
 "C01": (" Below MosaikSched the wake-up layer is specified (ProgressWake.tla: parked has_passed/has_reached calls, set() resolves exactly those whose condition holds): TLC on small constants, a TLAPS proof that NoLostWakeup and the soundness of resolved values are inductive for arbitrary owners / times / delays / callers, and ProgressTrace validation of every Progress.set / _add_trigger call of the executions that carry internal traces.",
         " + TLC/TLAPS on ProgressWake + ProgressTrace validation of recorded Progress calls"),
 "C05": (" The wake-up layer (ProgressWake.tla, see C01) is model-checked, proved inductive with TLAPS and bound to mosaik/progress.py by ProgressTrace; the request-protocol layer PR_* of MosaikRef is evaluated on every execution; both report drift only.",
         " + TLC/TLAPS on ProgressWake + ProgressTrace validation"),
 "C08": (" Second part: the delays mosaik ACCUMULATES per (simulator, triggering ancestor) pair (cache_triggering_ancestors / update_min) for ~22k grouped connection graphs are judged by TLC against the path semantics of PathDelays.tla. Third part: TLAPS proofs (TieredProof.tla) that the specification's Compose equals applying the delays one after the other and is associative - for every shape and all integer tier values.",
         " + TLC table validation of accumulated path delays (PathDelays.tla) + TLAPS proofs of the Compose laws"),
 "C06": (" The family includes scenarios with connect() calls that mosaik refuses (caught by the script) before / after the connections and group context managers created up front / used as decorators; a legal scenario that cannot be built counts.", ""),
 "C11": (" History rows: the same call after earlier refused calls of the same world, after a group block left by an exception, and after an accepted call that was given the same initial_data dict object - verdict and run must not depend on that history.", ""),
 "C12": (" Starts through World.start vary the announced API version (adapters), a sibling model and a twin model described by the same dict object.", ""),
 "C15": (" In-process stubs come in three legal v3 signature shapes and as classes derived from a class of the opposite kind that was started earlier.", ""),
 "C17": (" The rt_strict run must end with the too-slow error iff the non-strict run of the same scenario has a too-slow report (DetTrace clause).", ""),
 "C18": (" The entity sets are handed over in several container shapes, including ONE list object as source and destination set.", ""),
 "C14": (" Failures at a request that mosaik passes on FOR ANOTHER simulator (an agent's asynchronous get_data) are planned as well. The World's life cycle - start / group / connect / run / shutdown in any order, each public call with its outcome - is specified in WorldLife.tla (no simulator is ever stopped twice, closed loop <=> every started simulator stopped exactly once, a refused call changes nothing, at most one run): model-checked, its whole state graph (42.6k transitions) replayed on the real World and every recorded call validated by WorldLifeTrace.tla; reported as drift only.",
         " + TLC model checking of WorldLife.tla with graph-covering replay into the real World and WorldLifeTrace validation"),
 "C16": (" The sibling requests get_progress / get_related_entities are specified as the information-request layer IR_* of MosaikRef (progress bounded from the observable history as of the last completed step, entity graph = created entities and connected pairs) and judged on every execution whose scripted simulators issue them; reported as drift only. The connection that carries the asynchronous requests may be time-shifted as well.", ""),
 "C02": (" Initial events at later times and several per simulator (World.set_initial_event) are part of the scenario model; in-process simulators with generator-style step() (shipped LocalProxy) are one profile.", ""),
 "C10": (" One profile runs in real-time mode with consumers slower than real time and simulators that declare set_events.", ""),
}
for _pid, (_t, _k) in ADD.items():
    _ref, _text, _tech = CHECKS[_pid]
    CHECKS[_pid] = (_ref, _text + _t, _tech + _k)
SCHED_NOTE = SCHED_NOTE.replace("(DESIGN.md 11.6 lists what each seeded change forced in)", "(DESIGN.md 11.6 and 12 list what each seeded change forced in: child entities of other models, several worlds per process reusing ids, public queries before run(), positional call shapes, group context managers entered elsewhere, timers firing before replies, ...)")


def main():
    global EXTRA_NOTES
    EXTRA_NOTES = dict({k: PURE_NOTE for k in ("C06", "C08", "C11", "C12", "C15", "C18")}, **EXTRA)
    checks = []
    for pid, (ref, text, tech) in sorted(CHECKS.items()):
        checks.append({
            "property_id": pid,
            "quick_cmd": f"./check {pid} --tier quick",
            "thorough_cmd": f"./check {pid} --tier thorough",
            "evidence_file": f"/verif/evidence/{pid}.json",
            "replay_cmd_template": f"./check {pid} --replay {{path}}",
            "engine": "tlc",
            "level_claimed": {"category": "model_checking", "text": text, "design_ref": ref},
            "level_note": EXTRA_NOTES.get(pid, SCHED_NOTE),
            "technique": tech,
        })
    m = {
        "version": 1,
        "setup_cmd": "./setup.sh",
        "hooks": {
            "guard": "MOSAIK_VERIF_TRACE",
            "enable": "no source hooks: the harness observes mosaik through its own proxies (public StarterCollection extension point) and out-of-tree wrappers around mosaik.scheduler functions; /repo only received unguarded 'fix:' commits",
            "baseline_off_cmd": BASELINE_OFF,
            "source_commits": [],
            "add_only": True,
        },
        "engines": [
            {"name": "tlc", "path": "/usr/local/bin/tlc", "serves_properties": sorted(CHECKS), "kind_free_text": "TLC 1.8 explicit-state model checker: exhaustive exploration of spec/MosaikSched.tla and trace validation with spec/RefTrace.tla and the *Table.tla modules"},
            {"name": "tlapm", "path": "/usr/local/bin/tlapm", "serves_properties": ["C01", "C05", "C08"], "kind_free_text": "TLA+ proof system 1.6: machine-checked proofs about the SPECIFICATION (ProgressWakeProof.tla: NoLostWakeup and result soundness inductive; TieredProof.tla: Compose = sequential Apply, Compose associative) for unbounded parameters; never a verdict on the code"},
            {"name": "harness", "path": "/verif/harness", "serves_properties": sorted(CHECKS), "kind_free_text": "virtual-time asyncio loop + scripted asynchronous simulators driving the real mosaik scheduler along TLC-generated / seeded reply schedules"},
        ],
        "checks": checks,
        "not_applicable": [{"property_id": k, "reason": v} for k, v in sorted(NOT_YET.items()) if k not in CHECKS],
        "notes": "Model-based verification with explicit TLA+ specifications (spec/). Verdicts come from the reference semantics evaluated by TLC on recorded executions of the real code; see DESIGN.md. known_findings.jsonl lists open findings (downgraded to KNOWN-FINDING lines) and repaired defects.",
    }
    path = os.path.join(os.path.dirname(os.path.dirname(os.path.abspath(__file__))), "MANIFEST.json")
    json.dump(m, open(path, "w"), indent=1)
    print("wrote", path, len(checks), "checks")

EXTRA_NOTES = dict({k: PURE_NOTE for k in ("C06", "C08", "C11", "C12", "C15", "C18")}, **EXTRA)
if __name__ == "__main__":
    main()

#!/venv/bin/python
"""Regenerate /verif/MANIFEST.json from the table below (single place to edit)."""
import json, os, sys
sys.path.insert(0, os.path.dirname(os.path.dirname(os.path.abspath(__file__))))

BASELINE_OFF = "cd /repo && env -u MOSAIK_VERIF_TRACE /venv/bin/python -m pytest -ra -q -p no:cacheprovider --timeout=900 --continue-on-collection-errors"

SCHED_NOTE = ("Trusted base: TLC, the harness's scripted asynchronous proxies and virtual-time asyncio loop (CPython's BaseEventLoop with I/O polling and clock replaced), "
              "the observable-event recorder. Bounded: scenario families of 2-5 simulators, until <= 6; nothing is proved for arbitrary sizes.")

CHECKS = {
 "C01": ("§6 C01", "TLC explores the implementation-shaped spec MosaikSched exhaustively on small scenario configs with the reference clauses C01_* (consumer form, producer form, no trigger delivered into the past) as invariants; TLC behaviours are replayed into the real scheduler; thousands of real executions under controlled reply interleavings (incl. sibling groups, weak/shifted/async connections) are judged by TLC against the reference semantics.",
         "TLC model checking of MosaikSched + TLC trace validation (RefTrace) of real executions under enumerated/seeded reply schedules"),
 "C02": ("§6 C02", "Demand bookkeeping of the reference semantics (every demanded tiered time executed exactly once, in order, none at/after until, none lost at the end) as invariants of MosaikSched under TLC and as trace predicates on real executions with heap-stressing behaviours (future-dated outputs, earlier steps inserted while ancestors are in flight).",
         "TLC model checking + TLC trace validation of real executions"),
 "C03": ("§6 C03", "ExpectedInputs oracle of the reference semantics (tiered due times, persistent vs. event semantics, initial data, set_data) evaluated by TLC on every step of every real execution for cache x lazy x schedules; the same oracle is an invariant of the data-plane part of MosaikSched.",
         "TLC trace validation against the ExpectedInputs oracle + TLC model checking of the data plane"),
 "C05": ("§6 C05", "Run outcome predicate: every accepted scenario with compliant always-answering scripted simulators must end with run() returning; the virtual loop gives a sound deadlock verdict (idle loop, nothing outstanding, run() pending); internal-consistency exceptions are violations. TLC checks deadlock-freedom and termination of MosaikSched.",
         "TLC deadlock/liveness checking of MosaikSched + outcome predicate on real executions under controlled schedules"),
 "C07": ("§6 C07", "Promise/cause predicate of the reference semantics: causes are tracked transitively through triggers and self-schedules; every step inside an earlier promise window must be caused by the simulator itself; m <= until, m = until without trigger inputs.",
         "TLC trace validation (cause tracking) + TLC model checking"),
 "C09": ("§6 C09", "Loop-guard outcome predicate in both directions (no sub-step >= bound is ever executed; the guard error names a simulator whose minimal outstanding demand exceeds the bound) on weak-loop families with bounds around the loop length.",
         "TLC trace validation of real executions + TLC model checking of the loop-guard branch"),
 "C10": ("§6 C10", "Outstanding-consumer predicate at every step begin of lazy runs: no direct consumer has an outstanding (demanded or in-flight) step earlier than the adapted step time.",
         "TLC trace validation + TLC model checking"),
 "C13": ("§6 C13", "Malformed-reply predicate: after a malformed reply (enumerated kinds x simulator x step index x schedules) no demand is created, the simulator is never stepped again, run() fails with an error naming it.",
         "fault enumeration judged by TLC trace validation"),
 "C16": ("§6 C16", "set_data delivery (exactly once, next step, right source key), ordering (server does not begin a step while a requester has an earlier step in flight) and refusal (ScenarioError without async connection) predicates over agent families with several step-size ratios.",
         "TLC trace validation of real executions with call-backs"),
}

NOT_YET = {
 "C04": "check under construction in this round (DetTrace equality with the canonical run); see DESIGN.md §6 C04",
 "C06": "check under construction in this round (Cycles.tla table validation); see DESIGN.md §6 C06",
 "C08": "check under construction in this round (TieredOrder.tla table validation); see DESIGN.md §6 C08",
 "C11": "check under construction in this round (ConnectRules.tla table validation); see DESIGN.md §6 C11",
 "C12": "check under construction in this round (Attrs.tla table validation); see DESIGN.md §6 C12",
 "C14": "check under construction in this round (MosaikFaults.tla, crash-point enumeration); see DESIGN.md §6 C14",
 "C15": "check under construction in this round (Adapters.tla table validation); see DESIGN.md §6 C15",
 "C17": "check under construction in this round (MosaikRT.tla on the virtual clock); see DESIGN.md §6 C17",
 "C18": "check under construction in this round (BulkConnect.tla, scripted random); see DESIGN.md §6 C18",
}

def main():
    checks = []
    for pid, (ref, text, tech) in sorted(CHECKS.items()):
        checks.append({
            "property_id": pid,
            "quick_cmd": f"./check {pid} --tier quick",
            "thorough_cmd": f"./check {pid} --tier thorough",
            "evidence_file": f"/verif/evidence/{pid}.json",
            "replay_cmd_template": f"./check {pid} --replay {{path}}",
            "engine": "tlc",
            "level_claimed": {"category": "model_checking", "text": text, "design_ref": ref},
            "level_note": EXTRA_NOTES.get(pid, SCHED_NOTE),
            "technique": tech,
        })
    m = {
        "version": 1,
        "setup_cmd": "./setup.sh",
        "hooks": {
            "guard": "MOSAIK_VERIF_TRACE",
            "enable": "no source hooks: the harness observes mosaik through its own proxies (public StarterCollection extension point) and out-of-tree wrappers around mosaik.scheduler functions; /repo only received unguarded 'fix:' commits",
            "baseline_off_cmd": BASELINE_OFF,
            "source_commits": [],
            "add_only": True,
        },
        "engines": [
            {"name": "tlc", "path": "/usr/local/bin/tlc", "serves_properties": sorted(CHECKS), "kind_free_text": "TLC 1.8 explicit-state model checker: exhaustive exploration of spec/MosaikSched.tla and trace validation with spec/RefTrace.tla and the *Table.tla modules"},
            {"name": "harness", "path": "/verif/harness", "serves_properties": sorted(CHECKS), "kind_free_text": "virtual-time asyncio loop + scripted asynchronous simulators driving the real mosaik scheduler along TLC-generated / seeded reply schedules"},
        ],
        "checks": checks,
        "not_applicable": [{"property_id": k, "reason": v} for k, v in sorted(NOT_YET.items()) if k not in CHECKS],
        "notes": "Model-based verification with explicit TLA+ specifications (spec/). Verdicts come from the reference semantics evaluated by TLC on recorded executions of the real code; see DESIGN.md. known_findings.jsonl lists open findings (downgraded to KNOWN-FINDING lines) and repaired defects.",
    }
    path = os.path.join(os.path.dirname(os.path.dirname(os.path.abspath(__file__))), "MANIFEST.json")
    json.dump(m, open(path, "w"), indent=1)
    print("wrote", path, len(checks), "checks")

EXTRA_NOTES = {}
if __name__ == "__main__":
    main()

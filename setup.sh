#!/bin/sh
# Offline setup: syntax-check every specification with SANY and byte-compile the harness.
set -e
cd "$(dirname "$0")"
for f in spec/*.tla; do
  # (proof modules extend TLAPS.tla, which is on tlapm's library path, not on SANY's: they are checked by tlapm in the C01 / C05 checks)
  case "$f" in *Proof.tla) continue;; esac
  ( cd spec && tla-sany "$(basename "$f")" >/tmp/sany.$$ 2>&1 ) || { cat /tmp/sany.$$; rm -f /tmp/sany.$$; echo "SANY failed on $f"; exit 1; }
done
rm -f /tmp/sany.$$
/venv/bin/python -m compileall -q harness checks tools check >/dev/null
mkdir -p evidence replays
echo "setup ok"

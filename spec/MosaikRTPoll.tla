---------------------------- MODULE MosaikRTPoll ----------------------------
(***************************************************************************)
(* (S) for C17, implementation-shaped: ONE simulator in real-time mode     *)
(* that steps only on EXTERNAL events (MosaikRemote.set_event called from  *)
(* outside a step, at any wall-clock time), as scheduler.sim_process /     *)
(* next_step_settled / advance_progress / rt_check execute it.             *)
(*                                                                         *)
(* Wall-clock time `now` is counted in sub-ticks, K sub-ticks = one        *)
(* simulation step (rt_factor * time_resolution seconds).  The clock of    *)
(* the code is strictly increasing between reads, so the elapsed time it   *)
(* sees is now + eps: the real-time cap ceil(elapsed / K) is (now \div K)  *)
(* + 1 and "elapsed > K * t" is now >= K * t.  All replies are instant;    *)
(* time passes only while the simulator waits in next_step_settled.        *)
(*                                                                         *)
(* One action per atomic section of the code:                              *)
(*   Start      sim_process: advance_progress before the loop              *)
(*   Check      top of the loop of next_step_settled: finished / next step  *)
(*              settled (begin it) / start asyncio.wait with timeout K     *)
(*   Timeout    the wait times out                                         *)
(*   Wake       the wait ends because newer_step was set                   *)
(*   After      newer_step.clear(); advance_progress (RefreshOnWake =      *)
(*              FALSE models a variant that refreshes only after a         *)
(*              timeout - the property Prompt must then FAIL: negative     *)
(*              control of the specification itself)                       *)
(*   StepDone   the step returns (no next step), rt_check, advance_progress*)
(*   ExtEvent   set_event(t) from outside: schedule_step, newer_step.set() *)
(*              if the step is earlier than the head of the queue          *)
(*   Tick       one sub-tick of wall-clock time                            *)
(***************************************************************************)
EXTENDS Naturals, FiniteSets, TLC

CONSTANTS K, Until, MaxEv, RefreshOnWake

VARIABLES now, pc, progress, nexts, cur, deadline, woken, byTimeout, began, setat, nev, backwards
vars == <<now, pc, progress, nexts, cur, deadline, woken, byTimeout, began, setat, nev, backwards>>

None == Until + 1
Min(S) == CHOOSE x \in S : \A y \in S : x <= y
Max2(a, b) == IF a >= b THEN a ELSE b
Cap == (now \div K) + 1                          \* ceil((now + eps) / K)
Horizon == K * (Until + 1)

Init == /\ now = 0 /\ pc = "start" /\ progress = 0 /\ nexts = {} /\ cur = None
        /\ deadline = 0 /\ woken = FALSE /\ byTimeout = FALSE
        /\ began = [t \in 0..Until |-> None * K * 2]      \* "not begun"
        /\ setat = [t \in 0..Until |-> 0]
        /\ nev = 0 /\ backwards = FALSE

NotBegun(t) == began[t] = None * K * 2

\* advance_progress for a simulator without ancestors
Adv == LET np == Min({Cap, Until} \cup nexts \cup (IF cur # None THEN {cur} ELSE {})) IN
       /\ backwards' = (backwards \/ np < progress)       \* "cannot progress backwards"
       /\ progress' = IF np >= progress THEN np ELSE progress

Start == /\ pc = "start" /\ Adv /\ pc' = "check"
         /\ UNCHANGED <<now, nexts, cur, deadline, woken, byTimeout, began, setat, nev>>

Check == /\ pc = "check"
         /\ IF progress >= Until THEN
               pc' = "done" /\ UNCHANGED <<nexts, cur, deadline, began>>
            ELSE IF nexts # {} /\ Min(nexts) = progress THEN
               /\ pc' = "step" /\ cur' = Min(nexts) /\ nexts' = nexts \ {Min(nexts)}
               /\ began' = [began EXCEPT ![Min(nexts)] = now]
               /\ UNCHANGED deadline
            ELSE
               pc' = "wait" /\ deadline' = now + K /\ UNCHANGED <<nexts, cur, began>>
         /\ UNCHANGED <<now, progress, woken, byTimeout, setat, nev, backwards>>

Timeout == /\ pc = "wait" /\ now = deadline /\ pc' = "after" /\ byTimeout' = TRUE
           /\ UNCHANGED <<now, progress, nexts, cur, deadline, woken, began, setat, nev, backwards>>

Wake == /\ pc = "wait" /\ woken /\ pc' = "after" /\ byTimeout' = FALSE
        /\ UNCHANGED <<now, progress, nexts, cur, deadline, woken, began, setat, nev, backwards>>

After == /\ pc = "after" /\ woken' = FALSE /\ pc' = "check"
         /\ IF RefreshOnWake \/ byTimeout THEN Adv ELSE UNCHANGED <<progress, backwards>>
         /\ UNCHANGED <<now, nexts, cur, deadline, byTimeout, began, setat, nev>>

StepDone == /\ pc = "step" /\ cur' = None /\ pc' = "check"
            /\ LET np == Min({Cap, Until} \cup nexts) IN        \* (cur is None again when advance_progress runs)
                 /\ backwards' = (backwards \/ np < progress)
                 /\ progress' = IF np >= progress THEN np ELSE progress
            /\ UNCHANGED <<now, nexts, deadline, woken, byTimeout, began, setat, nev>>

\* set_event(t) for a step that is in the simulator's future: the step running on the wall clock or a later one
\* that has neither been executed nor been scheduled yet; t = Until is ignored by the code (with a warning)
ExtEvent(t) == /\ pc \notin {"start", "done"} /\ nev < MaxEv /\ nev' = nev + 1
               /\ t >= Cap /\ t <= Until /\ (t < Until => (NotBegun(t) /\ t \notin nexts /\ \A u \in 0..(Until - 1) : ~NotBegun(u) => u < t))
               /\ IF t < Until THEN
                     /\ nexts' = nexts \cup {t}
                     /\ woken' = (woken \/ nexts = {} \/ t < Min(nexts))
                     /\ setat' = [setat EXCEPT ![t] = now]
                  ELSE UNCHANGED <<nexts, woken, setat>>
               /\ UNCHANGED <<now, pc, progress, cur, deadline, byTimeout, began, backwards>>

\* time passes only while the simulator waits and nothing is enabled at this instant
Tick == /\ pc = "wait" /\ ~woken /\ now < deadline /\ now < Horizon
        /\ now' = now + 1
        /\ UNCHANGED <<pc, progress, nexts, cur, deadline, woken, byTimeout, began, setat, nev, backwards>>

Stutter == pc = "done" /\ UNCHANGED vars
Next == Start \/ Check \/ Timeout \/ Wake \/ After \/ StepDone \/ Tick \/ Stutter \/ \E t \in 1..Until : ExtEvent(t)
Spec == Init /\ [][Next]_vars /\ WF_vars(Start \/ Check \/ Timeout \/ Wake \/ After \/ StepDone \/ Tick)

----------------------------------------------------------------------------
TypeOK == /\ now \in 0..Horizon /\ pc \in {"start", "check", "wait", "after", "step", "done"}
          /\ progress \in 0..Until /\ nexts \subseteq 0..(Until - 1) /\ cur \in 0..None
NoInternalError == ~backwards
\* C17 pacing: a step for time t never begins before K * (t - 1)   (elapsed = now + eps > K * (t - 1))
Pacing == \A t \in 1..(Until - 1) : ~NotBegun(t) => began[t] >= K * (t - 1)
\* an accepted event is executed - promptly: at the moment it was set if the wall clock already allows step t,
\* otherwise as soon as it does (at the first poll after K * (t - 1), i.e. within one polling period)
Prompt == \A t \in 1..(Until - 1) : ~NotBegun(t) =>
             began[t] <= Max2(setat[t], K * (t - 1) + (K - 1))
\* ... and therefore never behind the wall clock by more than the strictly increasing clock reads
NeverLate == \A t \in 1..(Until - 1) : ~NotBegun(t) => began[t] < K * t
EventsExecuted == pc = "done" => nexts = {}
Terminates == <>(pc = "done")
\* spec -> code: every terminal state carries the complete external schedule (setat) and the model's begin times
DumpDone == pc = "done" => PrintT(<<"RTB", setat, began>>)
=============================================================================

SPECIFICATION TSpec
CONSTANTS
  Sids = {"A", "B", "C"}
  MaxGroups = 1000
  MaxCalls = 1000
CHECK_DEADLOCK FALSE

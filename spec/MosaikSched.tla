---------------------------- MODULE MosaikSched ----------------------------
(***************************************************************************)
(* (S) Implementation-shaped specification of mosaik's scheduler           *)
(* (mosaik/scheduler.py, simmanager.py, progress.py, scenario.py).         *)
(*                                                                         *)
(* One process per simulator (scheduler.sim_process).  Because scheduling  *)
(* is cooperative (asyncio), the code between two awaits is atomic; each   *)
(* such section is one action:                                             *)
(*                                                                         *)
(*   Start(s)        sim_process entry: advance_progress                   *)
(*   Settle(s)       next_step_settled() returns True                      *)
(*   Finish(s)       next_step_settled() returns False                     *)
(*   BeginStep(s)    wait_for_dependencies() done; heappop; guards         *)
(*                   (already progressed / loop guard); get_input_data;    *)
(*                   get_max_advance; the step request leaves              *)
(*   StepReturn(s,r) reply to step: validation, self-schedule; if nothing  *)
(*                   is requested from s also the post-step section        *)
(*   DataReturn(s,A,dt) reply to get_data: output-time check, cache, push, *)
(*                   notify_dependencies, advance_progress of ALL          *)
(*                   simulators, pruning                                   *)
(*   SetData(b,..)   call-back of an agent during its step                 *)
(*   End             run() returns or raises                               *)
(*                                                                         *)
(* The environment (simulators) is nondeterministic: which outstanding     *)
(* reply arrives next and what it contains.  Wake-ups (Progress futures,   *)
(* newer_step) are deliberately not modelled: guards are re-evaluated on   *)
(* the shared state, so a lost wake-up in the code shows up in conformance *)
(* as "code idle although an action of (S) is enabled".                    *)
(*                                                                         *)
(* Every action also produces the observable event of MosaikRef and folds  *)
(* it into the reference history h; the clauses of (R) that fail are       *)
(* collected in viol, so the listed properties are invariants of (S).      *)
(***************************************************************************)
EXTENDS MosaikRef

CONSTANTS
  SC,        \* the scenario record (same shape as the harness/JSON scenario)
  NextOffs,  \* offsets a step reply may choose for the next step; 0 = "no next step"
  FutOffs,   \* offsets of the output time (0 = the step time); persistent data is never future-dated
  Faults,    \* BOOLEAN: replies may also be malformed (C13)
  Agents     \* set of <<agent, target, attr>>: the agent may set_data(target.attr) during its steps

Sims == Sids(SC)
Depth(s) == DepthOf(SC, s)
C(i) == Conn(SC, i)
CI == CIdx(SC)
Until == SC.until
UntilT(s) == Flat(SC, s, Until)

Preds(s) == {C(i).src : i \in {i \in CI : C(i).dst = s}}
Succs(s) == {C(i).dst : i \in {i \in CI : C(i).src = s}}                 \* SimRunner.successors
AsyncSuccs(s) == {C(i).dst : i \in {i \in CI : C(i).src = s /\ C(i).async}} \* successors_to_wait_for
InIvs(s, p) == UNION {WaitIvs(SC, C(i)) : i \in {i \in CI : C(i).dst = s /\ C(i).src = p}}
TrigIdx == {i \in CI : C(i).data /\ C(i).trig}
OutReq(s) == {<<C(i).se, C(i).sa>> : i \in {i \in CI : C(i).src = s /\ C(i).data}}   \* output_request
Pulled(i) == SC.cache /\ C(i).data /\ C(i).pers

\* delays of all trigger paths a ~> s with at most k hops (a SET: for incomparable
\* delays the minimum is taken over arrival times, not over intervals)
RECURSIVE PathIvs(_, _, _)
PathIvs(a, s, k) ==
  IF k = 0 THEN {}
  ELSE {ConnIv(SC, C(i)) : i \in {i \in TrigIdx : C(i).src = a /\ C(i).dst = s}}
       \cup UNION {{Compose(ConnIv(SC, C(i)), d) : d \in PathIvs(C(i).dst, s, k - 1)} :
                     i \in {i \in TrigIdx : C(i).src = a}}
AncIvs == [s \in Sims |-> [a \in Sims |-> PathIvs(a, s, Cardinality(Sims))]]   \* triggering_ancestors

Tok(s, k, a) == s \o "." \o ToString(k) \o "." \o a

VARIABLES
  pc,        \* [Sims -> {"init","settle","wait","step","getdata","done","failed"}]
  progress,  \* SimRunner.progress.time
  nexts,     \* SimRunner.next_steps (the heap, as a set: schedule_step de-duplicates)
  cur,       \* SimRunner.current_step  (None when idle)
  last,      \* SimRunner.last_step.time (integer, -1 before the first step)
  tgt,       \* the next_step captured by wait_for_dependencies
  cacheT, cacheV,  \* SimRunner.outputs: times with an entry / <<time, eid, attr, val>>
  buf,       \* timed_input_buffer: [due, k, src, se, de, da, val]
  pmem,      \* persistent_inputs: [de, da, src, se, val]
  setd,      \* inputs_from_set_data: [dst, de, da, src, se, val]
  err,       \* <<>> or <<kind, simulator>>
  ended,     \* run() has returned / raised
  h,         \* reference history (MosaikRef)
  viol       \* clauses of the reference semantics violated so far
vars == <<pc, progress, nexts, cur, last, tgt, cacheT, cacheV, buf, pmem, setd, err, ended, h, viol>>
ctl  == <<pc, progress, nexts, cur, last, tgt>>
data == <<cacheT, cacheV, buf, pmem, setd>>

NoErr == err = <<>>
\* An exception in one simulator's process ends that process; run() raises once the event loop
\* gets to it - until then the OTHER processes keep running (End may come at any later point).
Fail(s, kind) == /\ err' = IF NoErr THEN <<kind, s>> ELSE err
                 /\ pc' = [pc EXCEPT ![s] = "failed"]

----------------------------------------------------------------------------
(* advance_progress / get_max_advance                                      *)

NewProgress(s, nx, cu) ==
  TMin({UntilT(s)}
       \cup (IF nx[s] # {} THEN {TMin(nx[s])} ELSE {})
       \cup (IF cu[s] # None THEN {cu[s]} ELSE {})
       \cup UNION {{Apply(TMin(nx[a]), d) : d \in AncIvs[s][a]} : a \in {a \in Sims : nx[a] # {}}}
       \cup UNION {{Apply(cu[a], d) : d \in AncIvs[s][a]} : a \in {a \in Sims : cu[a] # None}})

MaxAdvance(s, nx, cu) ==
  IMin({Until + 1}
       \cup (IF nx[s] # {} THEN {TMin(nx[s])[1]} ELSE {})
       \cup UNION {{Apply(TMin(nx[a]), d)[1] : d \in AncIvs[s][a]} : a \in {a \in Sims : nx[a] # {}}}
       \cup UNION {{Apply(cu[a], d)[1] : d \in AncIvs[s][a]} : a \in {a \in Sims : cu[a] # None /\ a # s}}) - 1

----------------------------------------------------------------------------
(* get_input_data                                                          *)

Slot(x) == <<x.de, x.da, x.src, x.se>>
Override(base, new) == {x \in base : \A y \in new : Slot(y) # Slot(x)} \cup new
Inp(de, da, src, se, val) == [de |-> de, da |-> da, src |-> src, se |-> se, val |-> val]

PulledVal(i, t) ==
  LET c == C(i)  lim == t - c.shift
      T == {x \in cacheT[c.src] : x <= lim}
  IN IF T = {} THEN "None"
     ELSE LET e == {x \in cacheV[c.src] : x[1] = IMax(T) /\ x[2] = c.se /\ x[3] = c.sa}
          IN IF e = {} THEN "None" ELSE (CHOOSE x \in e : TRUE)[4]

DueBuf(s, t) == {b \in buf[s] : b.due <= t}
InputOf(s, t) ==
  LET fromSet == {Inp(d.de, d.da, d.src, d.se, d.val) : d \in {d \in setd : d.dst = s}}
      a1 == Override(pmem[s], fromSet)
      due == DueBuf(s, t)
      Best(sl) == CHOOSE b \in due : Slot(b) = sl /\ \A b2 \in due : Slot(b2) = sl =>
                     (b2.due < b.due \/ (b2.due = b.due /\ b2.k <= b.k))
      fromBuf == {Inp(sl[1], sl[2], sl[3], sl[4], Best(sl).val) : sl \in {Slot(b) : b \in due}}
      a2 == Override(a1, fromBuf)
      fromPull == {Inp(C(i).de, C(i).da, C(i).src, C(i).se, PulledVal(i, t)) :
                     i \in {i \in CI : C(i).dst = s /\ Pulled(i)}}
  IN Override(a2, fromPull)
\* merge_existing: only slots that already exist in the memory are updated
MemAfter(s, inp) == {IF \E y \in inp : Slot(y) = Slot(x) THEN CHOOSE y \in inp : Slot(y) = Slot(x) ELSE x : x \in pmem[s]}

----------------------------------------------------------------------------

Obs(ev) == LET r == RefStep(SC, h, ev) IN h' = r.h /\ viol' = viol \cup Clauses(r.v)

InitPmem(s) ==
  {Inp(C(i).de, C(i).da, C(i).src, C(i).se, IF C(i).init # "" THEN C(i).init ELSE "None") :
     i \in {i \in CI : C(i).dst = s /\ C(i).data /\ ~Pulled(i) /\ ((C(i).pers /\ ~SC.cache) \/ C(i).init # "")}}
\* connect(): pulled initial data is written into EVERY cache entry it is valid for, -shift .. -1
\* (0 for a weak connection) -- entries in between exist when another connection from the same
\* simulator has a smaller shift (repair of D14; before it only the entry -shift was written)
InitTimes(i) == IF C(i).shift = 0 THEN {0} ELSE (0 - C(i).shift)..(-1)
InitCacheV(s) == UNION {{<<t, C(i).se, C(i).sa, C(i).init>> : t \in InitTimes(i)} :
                    i \in {i \in CI : C(i).src = s /\ Pulled(i) /\ C(i).init # ""}}

Init ==
  /\ pc = [s \in Sims |-> "init"]
  /\ progress = [s \in Sims |-> Zero(Depth(s))]
  /\ nexts = [s \in Sims |-> (IF TypeOf(SC, s) # "event-based" \/ SimRec(SC, s).initev THEN {Zero(Depth(s))} ELSE {})
                             \cup {FlatT(Depth(s), t) : t \in {u \in InitEvs(SC, s) : u >= 0}}]
  /\ cur = [s \in Sims |-> None]
  /\ last = [s \in Sims |-> -1]
  /\ tgt = [s \in Sims |-> None]
  /\ cacheV = [s \in Sims |-> InitCacheV(s)]
  /\ cacheT = [s \in Sims |-> {x[1] : x \in InitCacheV(s)}]
  /\ buf = [s \in Sims |-> {}]
  /\ pmem = [s \in Sims |-> InitPmem(s)]
  /\ setd = {}
  /\ err = <<>>
  /\ ended = FALSE
  /\ h = InitH(SC)
  /\ viol = {}

Start(s) ==
  /\ pc[s] = "init" /\ ~ended
  /\ progress' = [progress EXCEPT ![s] = NewProgress(s, nexts, cur)]
  /\ pc' = [pc EXCEPT ![s] = "settle"]
  /\ UNCHANGED <<nexts, cur, last, tgt, data, err, ended, h, viol>>

Settle(s) ==
  /\ pc[s] = "settle" /\ ~ended
  /\ progress[s][1] < Until
  /\ nexts[s] # {} /\ TMin(nexts[s]) = progress[s]
  /\ pc' = [pc EXCEPT ![s] = "wait"]
  /\ tgt' = [tgt EXCEPT ![s] = TMin(nexts[s])]
  /\ UNCHANGED <<progress, nexts, cur, last, data, err, ended, h, viol>>

Finish(s) ==
  /\ pc[s] = "settle" /\ ~ended
  /\ progress[s][1] >= Until
  /\ pc' = [pc EXCEPT ![s] = "done"]
  /\ UNCHANGED <<progress, nexts, cur, last, tgt, data, err, ended, h, viol>>

\* wait_for_dependencies: predecessors have PASSED, (lazy / async) successors have REACHED
DepsReady(s) ==
  /\ \A p \in Preds(s) : \A d \in InIvs(s, p) : TLess(tgt[s], Apply(progress[p], d))
  /\ \A q \in AsyncSuccs(s) : TLeq(Apply(tgt[s], AdaptIv(SC, s, q)), progress[q])
  /\ SC.lazy => \A q \in Succs(s) : TLeq(Apply(tgt[s], AdaptIv(SC, s, q)), progress[q])

BeginStep(s) ==
  /\ pc[s] = "wait" /\ ~ended
  /\ DepsReady(s)
  /\ LET c == TMin(nexts[s]) IN
       IF c # progress[s] \/ OverLoop(SC, c) THEN
          \* heappop happened, current_step is set, then one of the two guards raises
          /\ Fail(s, IF c # progress[s] THEN "already_progressed" ELSE "loop")
          /\ cur' = [cur EXCEPT ![s] = c] /\ nexts' = [nexts EXCEPT ![s] = @ \ {c}]
          /\ UNCHANGED <<progress, last, tgt, data, ended, h, viol>>
       ELSE
          LET t == c[1]
              inp == InputOf(s, t)
              nx == [nexts EXCEPT ![s] = @ \ {c}]
              cu == [cur EXCEPT ![s] = c]
              m == MaxAdvance(s, nx, cu)
          IN /\ cur' = cu /\ nexts' = nx
             /\ pc' = [pc EXCEPT ![s] = "step"]
             /\ buf' = [buf EXCEPT ![s] = @ \ DueBuf(s, t)]
             /\ pmem' = [pmem EXCEPT ![s] = MemAfter(s, inp)]
             /\ setd' = {d \in setd : d.dst # s}
             /\ Obs([k |-> "SB", s |-> s, t |-> t, m |-> m, inp |-> inp])
             /\ UNCHANGED <<progress, last, tgt, cacheT, cacheV, err, ended>>

\* the end of the loop body of sim_process (after get_outputs)
PostStep(s, nx, cT, cV) ==
  LET cu == [cur EXCEPT ![s] = None]
      np == [x \in Sims |-> NewProgress(x, nx, cu)]
      shifts == {C(i).shift : i \in {i \in CI : Pulled(i)}}
      maxShift == IF shifts = {} THEN 0 ELSE IMax(shifts)
      horizon == IMin({last'[x] : x \in Sims}) - maxShift
      KeepFrom(x) == LET T == {y \in cT[x] : y <= horizon} IN IF T = {} THEN horizon ELSE IMax(T)
  IN /\ nexts' = nx
     /\ cur' = cu
     /\ IF \E x \in Sims : TLess(np[x], progress[x])
          THEN Fail(s, "backwards") /\ UNCHANGED progress
          ELSE progress' = np /\ pc' = [pc EXCEPT ![s] = "settle"] /\ UNCHANGED err
     /\ cacheT' = [x \in Sims |-> IF SC.cache THEN {y \in cT[x] : y >= KeepFrom(x)} ELSE cT[x]]
     /\ cacheV' = [x \in Sims |-> IF SC.cache THEN {y \in cV[x] : y[1] >= KeepFrom(x)} ELSE cV[x]]

NextChoices(s, t) ==
  LET offs == IF TypeOf(SC, s) = "time-based" THEN NextOffs \ {0} ELSE NextOffs
  IN {[nk |-> IF o = 0 THEN "none" ELSE "int", n |-> IF o = 0 THEN 0 ELSE t + o] : o \in offs}
     \cup (IF Faults THEN {[nk |-> "int", n |-> t], [nk |-> "bad", n |-> 0]}
                          \cup (IF TypeOf(SC, s) = "time-based" THEN {[nk |-> "none", n |-> 0]} ELSE {})
           ELSE {})

StepReturn(s, r) ==
  /\ pc[s] = "step" /\ ~ended
  /\ r \in NextChoices(s, cur[s][1])
  /\ LET t == cur[s][1]
         bad == r.nk = "bad" \/ (r.nk = "int" /\ r.n <= t) \/ (r.nk = "none" /\ TypeOf(SC, s) = "time-based")
         nx == [nexts EXCEPT ![s] = IF r.nk = "int" /\ r.n < Until THEN @ \cup {Flat(SC, s, r.n)} ELSE @]
         nodata == OutReq(s) = {}
     IN /\ last' = [last EXCEPT ![s] = t]
        /\ Obs([k |-> "SE", s |-> s, nk |-> r.nk, n |-> r.n, nodata |-> nodata])
        /\ IF bad THEN
              /\ Fail(s, IF r.nk = "bad" THEN "bad_next_type" ELSE IF r.nk = "int" THEN "bad_next_past" ELSE "tb_none")
              /\ UNCHANGED <<progress, nexts, cur, tgt, data, ended>>
           ELSE IF nodata THEN
              /\ PostStep(s, nx, cacheT, cacheV)
              /\ UNCHANGED <<tgt, buf, pmem, setd, ended>>
           ELSE
              /\ nexts' = nx
              /\ pc' = [pc EXCEPT ![s] = "getdata"]
              /\ UNCHANGED <<progress, cur, tgt, data, err, ended>>

PersReq(s) == {x \in OutReq(s) : \E i \in CI : C(i).src = s /\ C(i).data /\ C(i).pers /\ C(i).se = x[1] /\ C(i).sa = x[2]}

DataReturn(s, attrs, dt) ==
  /\ pc[s] = "getdata" /\ ~ended
  /\ attrs \in SUBSET OutReq(s)
  /\ PersReq(s) \subseteq attrs                        \* compliance: requested persistent attributes are produced
  /\ dt \in FutOffs \cup (IF Faults THEN {-1} ELSE {})
  /\ (TypeOf(SC, s) = "time-based" \/ attrs \cap PersReq(s) # {}) => dt <= 0
  /\ LET k == h.nd[s]
         t == cur[s][1]
         oti == t + dt
         ot == IF dt = 0 THEN cur[s] ELSE Flat(SC, s, oti)
         vals == {<<a[1], a[2], Tok(s, k, a[2])>> : a \in attrs}
         fired == {i \in TrigIdx : C(i).src = s /\ <<C(i).se, C(i).sa>> \in attrs}
         nx == [x \in Sims |-> nexts[x] \cup {Apply(ot, ConnIv(SC, C(i))) : i \in {i \in fired : C(i).dst = x}}]
         cT == IF SC.cache THEN [cacheT EXCEPT ![s] = @ \cup {oti}] ELSE cacheT
         cV == IF SC.cache THEN [cacheV EXCEPT ![s] = {x \in @ : x[1] # oti} \cup {<<oti, a[1], a[2], Tok(s, k, a[2])>> : a \in attrs}]
               ELSE cacheV
         pushed(x) == {[due |-> oti + C(i).shift, k |-> k, src |-> s, se |-> C(i).se, de |-> C(i).de, da |-> C(i).da,
                        val |-> Tok(s, k, C(i).sa)] :
                         i \in {i \in CI : C(i).src = s /\ C(i).dst = x /\ C(i).data /\ ~Pulled(i) /\ <<C(i).se, C(i).sa>> \in attrs}}
     IN /\ Obs([k |-> "DE", s |-> s, otk |-> "int", ot |-> oti, vals |-> vals])
        /\ IF dt < 0 THEN
              /\ Fail(s, "bad_output_time")
              /\ UNCHANGED <<progress, nexts, cur, last, tgt, data, ended>>
           ELSE
              /\ UNCHANGED <<last, tgt, pmem, setd, ended>>
              /\ buf' = [x \in Sims |-> buf[x] \cup pushed(x)]
              /\ PostStep(s, nx, cT, cV)

\* MosaikRemote.set_data during the agent's step
SetData(b, a, attr, n) ==
  /\ pc[b] = "step" /\ ~ended /\ <<b, a, attr>> \in Agents
  /\ n \in 1..2
  /\ ~\E d \in setd : d.src = b /\ d.dst = a /\ d.da = attr /\ d.val = Tok(b, h.nd[b], "sd" \o ToString(n))   \* at most once per step and n
  /\ LET new == [dst |-> a, de |-> "E0", da |-> attr, src |-> b, se |-> "E0", val |-> Tok(b, h.nd[b], "sd" \o ToString(n))]
         allowed == AsyncAllowed(SC, a, b)
     IN /\ setd' = IF allowed THEN {d \in setd : ~(d.dst = a /\ d.de = "E0" /\ d.da = attr /\ d.src = b /\ d.se = "E0")} \cup {new} ELSE setd
        /\ Obs([k |-> "CB", s |-> b, f |-> "set_data", arg |-> {new}, res |-> IF allowed THEN "ok" ELSE "ScenarioError"])
  /\ UNCHANGED <<ctl, cacheT, cacheV, buf, pmem, err, ended>>

AllDone == \A s \in Sims : pc[s] = "done"
ErrCat == CASE err[1] = "loop" -> "loop_guard"
            [] err[1] \in {"bad_next_type", "bad_next_past", "bad_output_time", "tb_none"} -> err[1]
            [] OTHER -> err[1]
End ==
  /\ ~ended /\ (AllDone \/ ~NoErr)
  /\ ended' = TRUE
  /\ Obs(IF NoErr THEN [k |-> "END", r |-> "ok", cat |-> "ok", names |-> {}]
         ELSE [k |-> "END", r |-> IF err[1] = "backwards" THEN "AssertionError" ELSE "SimulationError",
               cat |-> ErrCat, names |-> IF err[1] = "backwards" THEN {} ELSE {err[2]}])
  /\ UNCHANGED <<ctl, data, err>>

Next ==
  \/ \E s \in Sims : Start(s) \/ Settle(s) \/ Finish(s) \/ BeginStep(s)
  \/ \E s \in Sims : \E r \in [nk : {"int", "none", "bad"}, n : 0..(Until + 4)] : StepReturn(s, r)
  \/ \E s \in Sims : \E A \in SUBSET OutReq(s) : \E dt \in FutOffs \cup {-1} : DataReturn(s, A, dt)
  \/ \E ag \in Agents : \E n \in 1..2 : SetData(ag[1], ag[2], ag[3], n)
  \/ End
Stutter == ended /\ UNCHANGED vars
NextS == Next \/ Stutter

Spec == Init /\ [][Next \/ Stutter]_vars /\ WF_vars(Next)

----------------------------------------------------------------------------
(* Properties.  The clause sets partition the clauses of MosaikRef.        *)

Of(S) == viol \cap S = {}
InvC01 == Of({"C01_consumer_began_before_producer_finished", "C01_producer_stepped_in_consumers_past",
              "C01_trigger_delivered_into_the_past"})
InvC02 == Of({"C02_step_not_demanded_or_out_of_order", "C02_lost_step"})
InvC03 == Of({"C03_inputs"})
InvC03strict == Of({"C03_inputs", "C03_inputs__sig_integer_time_data_plane"})
InvC05 == Of({"C05_run_failed"}) /\ (NoErr \/ err[1] \notin {"already_progressed", "backwards"})
InvC07 == Of({"C07_max_advance"})
InvC09 == Of({"C09_substep_beyond_bound_executed", "C09_guard_fired_without_cause"})
InvC10 == Of({"C10_lazy"})
InvC13 == Of({"C13_step_after_malformed_reply", "C13_malformed_reply_accepted", "C13_error_does_not_identify_simulator"})
InvC16 == Of({"C16_async_order", "C16_refusal", "C16_set_data_failed"})

\* mechanism invariants (model only)
TypeOK == /\ \A s \in Sims : pc[s] \in {"init", "settle", "wait", "step", "getdata", "done", "failed"}
          /\ \A s \in Sims : Len(progress[s]) = Depth(s)
ProgressBound == \A s \in Sims : pc[s] # "init" =>
                    /\ \A x \in nexts[s] : TLeq(progress[s], x)
                    /\ cur[s] # None => TLeq(progress[s], cur[s])
\* the reference semantics derives the same tiered step time as the scheduler
TauAgree == \A s \in Sims : (cur[s] # None /\ pc[s] # "failed") => h.lastd[s] = cur[s]

Termination == <>ended
=============================================================================

SPECIFICATION TSpec
CONSTANTS
  Owners <- TOwners
  Times = {}
  Targets = {}
  Shifts = {}
  Ids = {}
  EagerOnly = FALSE
CHECK_DEADLOCK FALSE

------------------------------ MODULE MosaikRT ------------------------------
(***************************************************************************)
(* (S) extension for C17: real-time pacing and external events             *)
(* (scheduler.advance_progress real-time cap, next_step_settled polling,   *)
(* rt_check, MosaikRemote.set_event).                                      *)
(*                                                                         *)
(* Wall-clock time `now` advances in ticks; K ticks correspond to one      *)
(* simulation step (rt_factor * time_resolution seconds).  A real          *)
(* perf_counter is strictly increasing between reads, so the elapsed time  *)
(* seen by the code is now + eps and the cap ceil(elapsed / K) equals      *)
(* (now \div K) + 1.  Simulators here are independent (pacing does not     *)
(* depend on connections); each keeps a set of scheduled steps, may        *)
(* self-schedule, may call set_event during a step, and its steps take a   *)
(* nondeterministic number of ticks.                                       *)
(*                                                                         *)
(*   Pacing:  a step for time t never begins before K*(t-1) ticks          *)
(*   Events:  set_event(t) with t < Until schedules a step at t that is    *)
(*            executed; t >= Until is ignored                              *)
(*   TooSlow: rt_check reports at the end of step t iff elapsed > K*t      *)
(*            (model of the code; with eps > 0 this is ALWAYS true for     *)
(*            t = 0 - open finding D19, so the property "an instant run is *)
(*            never reported" is false in this model and is recorded with  *)
(*            the KnownD19 predicate instead of being weakened)            *)
(***************************************************************************)
EXTENDS Naturals, FiniteSets, TLC

CONSTANTS Sims, K, Until, MaxDur, Events    \* Events: BOOLEAN (set_event calls allowed)

VARIABLES now, nexts, progress, cur, started, pending, done, reported, early
vars == <<now, nexts, progress, cur, started, pending, done, reported, early>>

Cap == (now \div K) + 1                                   \* ceil((now + eps) / K)
Min(S) == CHOOSE x \in S : \A y \in S : x <= y
NewProgress(s) == Min({Until, Cap} \cup nexts[s] \cup (IF cur[s] # Until + 1 THEN {cur[s]} ELSE {}))

Init == /\ now = 0 /\ nexts = [s \in Sims |-> {0}] /\ progress = [s \in Sims |-> 0]
        /\ cur = [s \in Sims |-> Until + 1]               \* Until + 1 = no step in flight
        /\ started = [s \in Sims |-> 0] /\ pending = [s \in Sims |-> {}]
        /\ done = [s \in Sims |-> FALSE] /\ reported = {} /\ early = FALSE

\* time passes; a step takes at most MaxDur ticks
Tick == /\ now < K * (Until + 1) + MaxDur * (Until + 1)
        /\ \A s \in Sims : cur[s] = Until + 1 \/ now - started[s] < MaxDur
        /\ now' = now + 1 /\ UNCHANGED <<nexts, progress, cur, started, pending, done, reported, early>>

\* next_step_settled wakes up (timeout = rt_factor) and re-evaluates progress
Poll(s) == /\ ~done[s] /\ cur[s] = Until + 1
           /\ progress' = [progress EXCEPT ![s] = IF NewProgress(s) > @ THEN NewProgress(s) ELSE @]
           /\ UNCHANGED <<now, nexts, cur, started, pending, done, reported, early>>

Begin(s) == /\ ~done[s] /\ cur[s] = Until + 1 /\ progress[s] < Until
            /\ nexts[s] # {} /\ Min(nexts[s]) = progress[s]
            /\ cur' = [cur EXCEPT ![s] = progress[s]]
            /\ nexts' = [nexts EXCEPT ![s] = @ \ {progress[s]}]
            /\ started' = [started EXCEPT ![s] = now]
            /\ early' = (early \/ (progress[s] > 0 /\ now < K * (progress[s] - 1)))
            /\ UNCHANGED <<now, progress, pending, done, reported>>

\* MosaikRemote.set_event during a step
SetEvent(s, t) == /\ Events /\ cur[s] # Until + 1 /\ t > cur[s] /\ t <= Until + 1
                  /\ nexts' = [nexts EXCEPT ![s] = IF t < Until THEN @ \cup {t} ELSE @]
                  /\ pending' = [pending EXCEPT ![s] = IF t < Until THEN @ \cup {t} ELSE @]
                  /\ UNCHANGED <<now, progress, cur, started, done, reported, early>>

\* the step returns after at most MaxDur ticks, optionally self-scheduling the next step
Return(s, nxt) == /\ cur[s] # Until + 1
                  /\ nxt \in {0} \cup {cur[s] + 1}                  \* 0 = no next step
                  /\ nexts' = [nexts EXCEPT ![s] = IF nxt # 0 /\ nxt < Until THEN @ \cup {nxt} ELSE @]
                  /\ reported' = IF now + 1 > K * cur[s] THEN reported \cup {<<s, cur[s]>>} ELSE reported   \* rt_check: elapsed (now + eps) > K * t
                  /\ pending' = [pending EXCEPT ![s] = @ \ {cur[s]}]
                  /\ cur' = [cur EXCEPT ![s] = Until + 1]
                  /\ UNCHANGED <<now, progress, started, done, early>>

Finish(s) == /\ ~done[s] /\ cur[s] = Until + 1 /\ progress[s] >= Until /\ done' = [done EXCEPT ![s] = TRUE]
             /\ UNCHANGED <<now, nexts, progress, cur, started, pending, reported, early>>

Stutter == (\A s \in Sims : done[s]) /\ UNCHANGED vars
Next == Tick \/ Stutter \/ \E s \in Sims : Poll(s) \/ Begin(s) \/ Finish(s) \/ (\E n \in 0..Until : Return(s, n)) \/ (\E t \in 1..(Until + 1) : SetEvent(s, t))
Spec == Init /\ [][Next]_vars /\ WF_vars(Next) /\ WF_vars(Tick)

Pacing == ~early
\* every accepted event is executed: at the end nothing scheduled by set_event is left
EventsExecuted == (\A s \in Sims : done[s]) => \A s \in Sims : pending[s] = {} /\ nexts[s] \cap (0..(Until - 1)) = {}
\* D19 in the model: the first step (t = 0) of every simulator is reported as too slow when it returns
KnownD19 == \A s \in Sims : (started[s] >= 0 /\ cur[s] = Until + 1 /\ 0 \notin nexts[s]) => <<s, 0>> \in reported
Completes == <>(\A s \in Sims : done[s])
=============================================================================

---------------------------- MODULE RTPollTrace ----------------------------
(***************************************************************************)
(* (T) code -> spec for the real-time polling model MosaikRTPoll:          *)
(* every recorded real-time execution of ONE externally triggered          *)
(* simulator (harness: virtual clock, external set_event timers) must be   *)
(* a behaviour of the model.  Logged events, each with the wall-clock      *)
(* sub-tick w at which it happened:                                        *)
(*    ext(w, t)    set_event(t) called from outside                        *)
(*    begin(w, t)  step(t) requested                                       *)
(*    end          run() returned                                          *)
(* Everything else (Start, the polling loop, time passing) is silent and   *)
(* bounded by the time of the next logged event.  One initial state per    *)
(* trace of the batch; an accepted trace prints <<"RTP", tid, n>>.         *)
(***************************************************************************)
EXTENDS MosaikRTPoll, Json, IOUtils, Sequences

Batch == JsonDeserialize(IOEnv.TRACE_FILE)
VARIABLES tid, l
tvars == <<vars, tid, l>>

Tr == Batch[tid].ev
More == l <= Len(Tr)
Ev == Tr[l]

TInit == Init /\ tid \in 1..Len(Batch) /\ l = 1

Consume == l' = l + 1 /\ UNCHANGED tid
Keep == UNCHANGED <<tid, l>>

TExt == More /\ Ev.k = "ext" /\ now = Ev.w /\ ExtEvent(Ev.t) /\ Consume
TBegin == More /\ Ev.k = "begin" /\ now = Ev.w /\ Check /\ pc' = "step" /\ cur' = Ev.t /\ Consume
TEnd == More /\ Ev.k = "end" /\ pc = "done" /\ UNCHANGED vars /\ Consume
TSilent == /\ More
           /\ \/ Start \/ (Check /\ pc' # "step") \/ Timeout \/ Wake \/ After \/ StepDone
              \/ (Tick /\ (Ev.k = "end" \/ now' <= Ev.w))
           /\ Keep
TAccept == l = Len(Tr) + 1 /\ PrintT(<<"RTP", tid, Len(Tr)>>) /\ l' = l + 1 /\ UNCHANGED <<vars, tid>>

TNext == TExt \/ TBegin \/ TEnd \/ TSilent \/ TAccept
TSpec == TInit /\ [][TNext]_tvars
=============================================================================

----------------------------- MODULE SchedTrace -----------------------------
(***************************************************************************)
(* (T) Trace specification for the INTERNAL layer, direction code -> spec. *)
(*                                                                         *)
(* Every recorded atomic section of the real scheduler (out-of-tree        *)
(* wrappers, harness/internal.py) must be an ENABLED action of MosaikSched *)
(* with the logged arguments, and must reproduce the logged projection of  *)
(* the scheduler state of ALL simulators (progress, heap, step in flight,  *)
(* last step, output cache, timed input buffer, persistent-input memory).  *)
(* Unlogged detail (e.g. which trigger connections fired) is inferred by   *)
(* TLC.  A rejected trace does not stop the batch:                         *)
(*   <<"ST", tid, "accepted", n>>                                          *)
(*   <<"ST", tid, "rejected", l, action, sim>>                             *)
(* A rejection is DRIFT between code and (S), not a property violation.    *)
(***************************************************************************)
EXTENDS MosaikSched, Json, IOUtils

TBatch == JsonDeserialize(IOEnv.TRACE_FILE)
TN == Len(TBatch)

VARIABLES tid, l
tvars == <<vars, tid, l>>

TEv == TBatch[tid].ev[l]
SeqSet(q) == {q[j] : j \in 1..Len(q)}

PostOk ==
  LET P == TEv.post IN
  /\ \A s \in Sims : progress'[s] = P.progress[s]
  /\ \A s \in Sims : nexts'[s] = SeqSet(P.nexts[s])
  /\ \A s \in Sims : cur'[s] = P.cur[s]
  /\ \A s \in Sims : last'[s] = P.last[s]
  /\ \A s \in Sims : cacheT'[s] = SeqSet(P.cacheT[s])
  /\ \A s \in Sims : cacheV'[s] = SeqSet(P.cacheV[s])
  /\ \A s \in Sims : {<<b.due, b.src, b.se, b.de, b.da, b.val>> : b \in buf'[s]} = SeqSet(P.buf[s])
  /\ \A s \in Sims : {<<x.de, x.da, x.src, x.se, x.val>> : x \in pmem'[s]} = SeqSet(P.pmem[s])

TStep ==
  /\ l <= Len(TBatch[tid].ev)
  /\ \/ TEv.a = "Start"  /\ Start(TEv.s)
     \/ TEv.a = "Settle" /\ Settle(TEv.s)
     \/ TEv.a = "Finish" /\ Finish(TEv.s)
     \/ TEv.a = "BeginStep" /\ BeginStep(TEv.s) /\ pc'[TEv.s] = "step"
     \/ TEv.a = "StepReturn" /\ StepReturn(TEv.s, [nk |-> TEv.nk, n |-> TEv.n]) /\ (pc'[TEv.s] = "failed" <=> TEv.err # "")
     \/ TEv.a = "DataReturn" /\ TEv.err = "" /\ DataReturn(TEv.s, SeqSet(TEv.attrs), TEv.dt) /\ pc'[TEv.s] # "failed"
     \* a reply that made get_outputs raise: the produced attributes were not logged, TLC infers them
     \/ TEv.a = "DataReturn" /\ TEv.err # "" /\ (\E A \in SUBSET OutReq(TEv.s) : DataReturn(TEv.s, A, TEv.dt)) /\ pc'[TEv.s] = "failed"
     \* the process of a simulator ended with an exception: either the failing section was already logged (StepReturn /
     \* DataReturn record with err), or it is a section that raises before its hook (guards of BeginStep, progress backwards)
     \/ TEv.a = "Failed" /\ pc[TEv.s] = "failed" /\ UNCHANGED vars
     \/ TEv.a = "Failed" /\ pc[TEv.s] = "wait" /\ BeginStep(TEv.s) /\ pc'[TEv.s] = "failed"
     \/ TEv.a = "Failed" /\ pc[TEv.s] = "step" /\ pc'[TEv.s] = "failed"
           /\ \E r \in [nk : {"int", "none", "bad"}, n : 0..(Until + 4)] : StepReturn(TEv.s, r)
     \/ TEv.a = "Failed" /\ pc[TEv.s] = "getdata" /\ pc'[TEv.s] = "failed"
           /\ \E A \in SUBSET OutReq(TEv.s) : \E dt \in FutOffs \cup {-1} : DataReturn(TEv.s, A, dt)
  /\ PostOk
  /\ l' = l + 1 /\ tid' = tid

\* the run ended with an error: some action of (S) must be able to produce that error now
TErr ==
  /\ l = Len(TBatch[tid].ev) + 1
  /\ TBatch[tid].cat \notin {"ok", "deadlock"}
  /\ NoErr
  /\ \/ \E s \in Sims : BeginStep(s)
     \/ \E s \in Sims : \E r \in [nk : {"int", "none", "bad"}, n : 0..(Until + 4)] : StepReturn(s, r)
     \/ \E s \in Sims : \E A \in SUBSET OutReq(s) : \E dt \in FutOffs \cup {-1} : DataReturn(s, A, dt)
  /\ ~NoErr' /\ ErrCat' = TBatch[tid].cat
  /\ l' = l /\ tid' = tid

ResetTo(n) ==
  /\ pc' = [s \in Sims |-> "init"]
  /\ progress' = [s \in Sims |-> Zero(Depth(s))]
  /\ nexts' = [s \in Sims |-> (IF TypeOf(SC, s) # "event-based" \/ SimRec(SC, s).initev THEN {Zero(Depth(s))} ELSE {})
                             \cup {FlatT(Depth(s), t) : t \in {u \in InitEvs(SC, s) : u >= 0}}]
  /\ cur' = [s \in Sims |-> None]
  /\ last' = [s \in Sims |-> -1]
  /\ tgt' = [s \in Sims |-> None]
  /\ cacheV' = [s \in Sims |-> InitCacheV(s)]
  /\ cacheT' = [s \in Sims |-> {x[1] : x \in InitCacheV(s)}]
  /\ buf' = [s \in Sims |-> {}]
  /\ pmem' = [s \in Sims |-> InitPmem(s)]
  /\ setd' = {}
  /\ err' = <<>>
  /\ ended' = FALSE
  /\ h' = InitH(SC)
  /\ viol' = {}
  /\ tid' = n /\ l' = 1

Finished == l = Len(TBatch[tid].ev) + 1 /\ (TBatch[tid].cat \in {"ok", "deadlock"} \/ ~NoErr)
TAccept ==
  /\ Finished
  /\ PrintT(<<"ST", tid, "accepted", l - 1, viol>>)
  /\ IF tid < TN THEN ResetTo(tid + 1) ELSE (l' = l + 1 /\ UNCHANGED <<vars, tid>>)
TReject ==
  /\ l <= Len(TBatch[tid].ev) + 1 /\ ~Finished
  /\ ~ENABLED TStep /\ ~ENABLED TErr
  /\ PrintT(<<"ST", tid, "rejected", l,
              IF l <= Len(TBatch[tid].ev) THEN TEv.a ELSE "END", IF l <= Len(TBatch[tid].ev) THEN TEv.s ELSE TBatch[tid].cat>>)
  /\ IF tid < TN THEN ResetTo(tid + 1) ELSE (l' = Len(TBatch[tid].ev) + 3 /\ UNCHANGED <<vars, tid>>)

TNext == TStep \/ TErr \/ TAccept \/ TReject
TSpec == Init /\ tid = 1 /\ l = 1 /\ [][TNext]_tvars
=============================================================================

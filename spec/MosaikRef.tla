----------------------------- MODULE MosaikRef -----------------------------
(***************************************************************************)
(* (R) Reference semantics of a mosaik run at the simulator-API boundary.  *)
(*                                                                         *)
(* This module contains NO scheduling algorithm.  From the scenario `sc`   *)
(* (simulators, types, group tree, connections, until, flags) and from the *)
(* observable event history it defines what a correct mosaik may do, one   *)
(* named clause per listed property:                                       *)
(*                                                                         *)
(*   C01_*  causal input readiness        C07_*  max_advance promise       *)
(*   C02_*  exact step set                C09_*  same-time loop guard      *)
(*   C03_*  data-flow fidelity            C10_*  lazy stepping             *)
(*   C05_*  completion                    C13_*  reply validation          *)
(*   C16_*  asynchronous requests         C17_*  real-time / set_event     *)
(*   C14_*  fault containment and clean shutdown                           *)
(*                                                                         *)
(* It is a pure state machine over a history record `h`:                   *)
(*     RefStep(sc, h, ev) = [h |-> next history, v |-> <<violations>>]     *)
(* and is used twice: RefTrace.tla folds it over recorded executions of    *)
(* the real scheduler; MosaikSched.tla feeds it the observable events its  *)
(* own actions generate, so the same clauses are invariants of (S).        *)
(*                                                                         *)
(* Observable events (records; `k` is the kind):                           *)
(*   SB  step request leaves mosaik:  s, t, m (max_advance), inp (set of   *)
(*       [de, da, src, se, val]), optional w (wall clock, ticks)           *)
(*   SE  step reply seen by mosaik:   s, nk in {"int","none","bad"}, n,    *)
(*       nodata (no output will be retrieved for this step)                *)
(*   DE  get_data reply seen:         s, otk in {"int","bad"}, ot,         *)
(*       vals (set of <<eid, attr, val>>)                                  *)
(*   CB  call-back of a simulator into mosaik during its step: s, f, arg,  *)
(*       res                                                               *)
(*   END run() returned / raised:     r, cat, names, closed (event loop    *)
(*       closed), pend / pendnames (tasks pending when it was closed)      *)
(*   STOP  a simulator received stop/finalize: s                           *)
(*   LOG   mosaik logged a warning: cat in {"too_slow","event_after_end"}, *)
(*         w (wall clock, ticks)                                           *)
(*   FAULT the harness made a simulator fail: s, kind                      *)
(***************************************************************************)
EXTENDS Tiered, TLC

----------------------------------------------------------------------------
(* Scenario accessors.  sc.sims / sc.conns are sequences of records.        *)

Sids(sc)        == {sc.sims[i].sid : i \in 1..Len(sc.sims)}
SimRec(sc, s)   == sc.sims[CHOOSE i \in 1..Len(sc.sims) : sc.sims[i].sid = s]
GPathOf(sc, s)  == SimRec(sc, s).gpath
DepthOf(sc, s)  == Len(GPathOf(sc, s)) + 1
TypeOf(sc, s)   == SimRec(sc, s).type
CIdx(sc)        == 1..Len(sc.conns)
Flat(sc, s, t)  == FlatT(DepthOf(sc, s), t)
InitEvs(sc, s)  == IF "initevs" \in DOMAIN SimRec(sc, s) THEN {SimRec(sc, s).initevs[i] : i \in 1..Len(SimRec(sc, s).initevs)} ELSE {}

\* depth (1 = root group) of the deepest group containing both simulators;
\* sibling groups have different ids, so they share only their ancestors
CommonDepth(sc, a, b) ==
  LET pa == GPathOf(sc, a)  pb == GPathOf(sc, b)
      Ok(m) == m <= Len(pb) /\ \A j \in 1..m : pa[j] = pb[j]
  IN 1 + (CHOOSE m \in 0..Len(pa) : Ok(m) /\ \A m2 \in 0..Len(pa) : Ok(m2) => m2 <= m)

\* delay of a connection: time shift on tier 1, weak sub-step on the tier of the
\* common group; tiers below the common group are reset (group boundary)
ConnIv(sc, c) ==
  LET cd == CommonDepth(sc, c.src, c.dst)  dn == DepthOf(sc, c.dst) IN
  [t |-> [i \in 1..dn |-> (IF i = 1 THEN c.shift ELSE 0) + (IF c.weak /\ i = cd THEN 1 ELSE 0)],
   c |-> cd, p |-> DepthOf(sc, c.src)]
\* the zero delay between two simulators (pure group adaptation)
AdaptIv(sc, a, b) == [t |-> Zero(DepthOf(sc, b)), c |-> CommonDepth(sc, a, b), p |-> DepthOf(sc, a)]

\* delays along which the destination of c must wait for its source
WaitIvs(sc, c) == (IF c.data THEN {ConnIv(sc, c)} ELSE {})
                  \cup (IF c.async THEN {AdaptIv(sc, c.src, c.dst)} ELSE {})

HasSubsteps(sc) == \E s \in Sids(sc) : DepthOf(sc, s) > 1
\* real-time mode: sc.rt = [on, K (wall-clock ticks per simulation step), strict, instant (all replies take no time)]
RT(sc) == IF "rt" \in DOMAIN sc THEN sc.rt ELSE [on |-> FALSE, K |-> 0, strict |-> FALSE, instant |-> FALSE]

\* Optional switches (used by exhaustive configs of MosaikSched to shrink the state space):
\* without the data history the C03 oracle is not evaluated, without the cause history C07 is not.
DataOn(sc)  == IF "datahist"  \in DOMAIN sc THEN sc.datahist  ELSE TRUE
CauseOn(sc) == IF "causehist" \in DOMAIN sc THEN sc.causehist ELSE TRUE

\* debug mode: the World records an execution graph; the reference keeps the set of steps to compare it with
DebugOn(sc) == IF "debug" \in DOMAIN sc THEN sc.debug ELSE FALSE

----------------------------------------------------------------------------
(* History.                                                                *)

InitH(sc) ==
  [dem   |-> [s \in Sids(sc) |-> (IF TypeOf(sc, s) # "event-based" \/ SimRec(sc, s).initev
                                  THEN {Flat(sc, s, 0)} ELSE {})
                                 \* every initial event (set_initial_event(sid, t), any number of them) demands a step of its own
                                 \cup {Flat(sc, s, t) : t \in {u \in InitEvs(sc, s) : u >= 0 /\ u < sc.until}}],   \* outstanding demands
   nd    |-> [s \in Sids(sc) |-> 0],        \* number of steps begun
   lastd |-> [s \in Sids(sc) |-> None],     \* tiered time of the last step begun
   infl  |-> [s \in Sids(sc) |-> None],     \* step in flight (until its outputs are retrieved)
   cz    |-> [s \in Sids(sc) |-> {}],       \* <<demand, cause>>, cause = <<sim, step index>>
   scz   |-> [s \in Sids(sc) |-> {}],       \* causes of the step in flight
   prom  |-> [s \in Sids(sc) |-> <<>>],     \* promises [t, m] of all steps
   prod  |-> [s \in Sids(sc) |-> <<>>],     \* productions [ot, vals]
   deliv |-> {}, delivI |-> {},             \* delivered <<conn, production>> of event connections
   setd  |-> {},                            \* set_data values waiting for the target's next step
   setdopt |-> {},                          \* ... of REFUSED calls (permitted destinations of a call that also named a forbidden one: applied or not)
   ph    |-> [s \in Sids(sc) |-> "new"],    \* request protocol of every simulator (PR_* clauses): new / idle / step / stepped / data / stopped
   lastse |-> "",                           \* the simulator whose step returned last (rt_check reports about it)
   steps |-> {},                            \* <<sim, tiered time>> of every step begun (kept in debug mode only)
   atT   |-> <<>>,                          \* number of steps begun at integer time t (all simulators): a function whose
                                            \* domain are the times at which a step began (runs may reach large times)
   mal   |-> None,                          \* <<sim, what>> after a malformed reply
   fault |-> None,                          \* <<sim, kind>> after an injected simulator failure
   stops |-> [s \in Sids(sc) |-> 0],        \* stop/finalize calls received
   slow  |-> 0, warned |-> 0, expwarn |-> 0, \* real-time: too-slow reports, ignored-event warnings seen / expected
   pg    |-> [lo |-> 0, hi |-> 0, last |-> 0], \* information requests: bounds of World.sim_progress (sum of the simulators' progress times) as of
                                            \* the last completed step, and the last value a simulator was told
   dead  |-> FALSE]                         \* bookkeeping impossible after a C02 failure

Viol(c, d) == <<[c |-> c, d |-> d]>>
NoV == <<>>
Cond(ok, c, d) == IF ok THEN NoV ELSE Viol(c, d)

----------------------------------------------------------------------------
(* Data plane: what the inputs of a step must be (C03).                    *)

Conn(sc, i) == sc.conns[i]
InConns(sc, s)  == {i \in CIdx(sc) : Conn(sc, i).dst = s /\ Conn(sc, i).data}
HasVal(pr, e, a) == \E x \in pr.vals : x[1] = e /\ x[2] = a
ValOf(pr, e, a)  == (CHOOSE x \in pr.vals : x[1] = e /\ x[2] = a)[3]

Due(sc, h, i, pi) == Apply(h.prod[Conn(sc, i).src][pi].ot, ConnIv(sc, Conn(sc, i)))
Produced(sc, h, i) == LET c == Conn(sc, i) IN
  {pi \in 1..Len(h.prod[c.src]) : HasVal(h.prod[c.src][pi], c.se, c.sa)}
PersCands(sc, h, i, tau) == {pi \in Produced(sc, h, i) : TLeq(Due(sc, h, i, pi), tau)}
EvCands(sc, h, i, tau)   == {pi \in PersCands(sc, h, i, tau) : <<i, pi>> \notin h.deliv}

\* expectation of connection i for a step of its destination at tau:
\* a value, "ANY" (not constrained by the property) or "ABSENT"
Expect(sc, h, i, tau) ==
  LET c == Conn(sc, i) IN
  IF c.pers THEN
     IF PersCands(sc, h, i, tau) # {}
       THEN ValOf(h.prod[c.src][IMax(PersCands(sc, h, i, tau))], c.se, c.sa)
     ELSE IF c.init # "" THEN c.init ELSE "ANY"
  ELSE IF c.init # "" THEN "ANY"
  ELSE LET E == EvCands(sc, h, i, tau) IN
     IF E = {} THEN "ABSENT"
     ELSE LET best == CHOOSE pi \in E : \A pj \in E :
                        \/ TLess(Due(sc, h, i, pj), Due(sc, h, i, pi))
                        \/ (Due(sc, h, i, pj) = Due(sc, h, i, pi) /\ pj <= pi)
          IN ValOf(h.prod[c.src][best], c.se, c.sa)

\* the same oracle with INTEGER due times (signature of the open finding D16:
\* the data plane of the implementation ignores sub-steps)
DueI(sc, h, i, pi) == h.prod[Conn(sc, i).src][pi].ot[1] + Conn(sc, i).shift
PersCandsI(sc, h, i, tau) == {pi \in Produced(sc, h, i) : DueI(sc, h, i, pi) <= tau[1]}
EvCandsI(sc, h, i, tau)   == {pi \in PersCandsI(sc, h, i, tau) : <<i, pi>> \notin h.delivI}
ExpectI(sc, h, i, tau) ==
  LET c == Conn(sc, i) IN
  IF c.pers THEN
     IF PersCandsI(sc, h, i, tau) # {}
       THEN ValOf(h.prod[c.src][IMax(PersCandsI(sc, h, i, tau))], c.se, c.sa)
     ELSE IF c.init # "" THEN c.init ELSE "ANY"
  ELSE IF c.init # "" THEN "ANY"
  ELSE LET E == EvCandsI(sc, h, i, tau) IN
     IF E = {} THEN "ABSENT"
     ELSE LET best == CHOOSE pi \in E : \A pj \in E :
                        \/ DueI(sc, h, i, pj) < DueI(sc, h, i, pi)
                        \/ (DueI(sc, h, i, pj) = DueI(sc, h, i, pi) /\ pj <= pi)
          IN ValOf(h.prod[c.src][best], c.se, c.sa)

SameSlot(c, x) == c.de = x.de /\ c.da = x.da /\ c.src = x.src /\ c.se = x.se
SetdFor(h, s) == {d \in h.setd : d.dst = s}
\* The inputs of a step have two writers: connections (C03) and set_data calls of
\* simulators that s serves asynchronous requests for (C16).  An input record is
\* explained by a connection of its slot carrying the expected value or by a pending
\* set_data value of its slot; what is attributed to which property:
\*   C03  every record that is NOT explained and whose source is not a requester of s,
\*        and every connection with a definite expectation has a record;
\*   C16  every record from a requester of s that no connection explains is a pending
\*        set_data value (so a value is not delivered twice / not invented), and every
\*        pending set_data value is in the inputs of this -- the next -- step.
ConnExplains(sc, s, x, Exp(_)) == \E i \in InConns(sc, s) : SameSlot(Conn(sc, i), x) /\ Exp(i) \in {x.val, "ANY"}
\* A set_data call that names a permitted and a forbidden destination is refused as a whole, but whether its permitted
\* part was stored before the refusal is not fixed by the property (the code stores destination by destination): such
\* values MAY arrive (and may replace a pending value of their slot); the forbidden part must never arrive (C03 / C16_refusal).
SetdOptFor(h, s) == {d \in h.setdopt : d.dst = s}
SetdExplains(h, s, x) == \E d \in SetdFor(h, s) \cup SetdOptFor(h, s) : d.de = x.de /\ d.da = x.da /\ d.src = x.src /\ d.se = x.se /\ d.val = x.val
Requester(sc, s, x) == \E i \in CIdx(sc) : Conn(sc, i).async /\ Conn(sc, i).src = s /\ Conn(sc, i).dst = x.src
InputsOk(sc, h, s, tau, inp, Exp(_)) ==
  /\ \A x \in inp : ConnExplains(sc, s, x, Exp) \/ SetdExplains(h, s, x) \/ Requester(sc, s, x)
  /\ \A i \in InConns(sc, s) : Exp(i) \notin {"ANY", "ABSENT"} =>
        \E x \in inp : SameSlot(Conn(sc, i), x)
SetdOk(sc, h, s, inp, Exp(_)) ==
  /\ \A x \in inp : Requester(sc, s, x) => (ConnExplains(sc, s, x, Exp) \/ SetdExplains(h, s, x))
  /\ \A d \in SetdFor(h, s) :
        \E x \in inp : d.de = x.de /\ d.da = x.da /\ d.src = x.src /\ d.se = x.se
                        /\ (d.val = x.val \/ ConnExplains(sc, s, x, Exp)
                            \/ \E o \in SetdOptFor(h, s) : o.de = x.de /\ o.da = x.da /\ o.src = x.src /\ o.se = x.se /\ o.val = x.val)
C16deliv(sc, h, s, tau, inp) ==
  \/ SetdOk(sc, h, s, inp, LAMBDA i : Expect(sc, h, i, tau))
  \/ (HasSubsteps(sc) /\ SetdOk(sc, h, s, inp, LAMBDA i : ExpectI(sc, h, i, tau)))
C03ok(sc, h, s, tau, inp)  == InputsOk(sc, h, s, tau, inp, LAMBDA i : Expect(sc, h, i, tau))
C03okI(sc, h, s, tau, inp) == InputsOk(sc, h, s, tau, inp, LAMBDA i : ExpectI(sc, h, i, tau))

----------------------------------------------------------------------------
(* Control plane predicates.                                               *)

\* C01, consumer form: no producer of s has a step in flight whose delayed
\* output time is at or before tau
C01cons(sc, h, s, tau) == \A i \in CIdx(sc) : LET c == Conn(sc, i) IN
   (c.dst = s /\ c.src # s) =>
      \A d \in WaitIvs(sc, c) : h.infl[c.src] = None \/ TLess(tau, Apply(h.infl[c.src], d))
\* C01, producer form: no consumer of s has already begun a step at or after
\* the delayed output time of a step of s at tau
C01prod(sc, h, s, tau) == \A i \in CIdx(sc) : LET c == Conn(sc, i) IN
   (c.src = s) =>
      \A d \in WaitIvs(sc, c) : h.lastd[c.dst] = None \/ TLess(h.lastd[c.dst], Apply(tau, d))

\* C16 ordering: a simulator that serves asynchronous requests does not begin
\* a step while a requester still has an earlier step in flight
C16order(sc, h, s, tau) == \A i \in CIdx(sc) : LET c == Conn(sc, i) IN
   (c.src = s /\ c.async /\ c.dst # s) =>
      (h.infl[c.dst] = None \/ ~TLess(h.infl[c.dst], Apply(tau, AdaptIv(sc, s, c.dst))))

StepCauses(h, s, tau) == {p[2] : p \in {p \in h.cz[s] : p[1] = tau}}
HasTrigIn(sc, s) == \E i \in CIdx(sc) : Conn(sc, i).dst = s /\ Conn(sc, i).data /\ Conn(sc, i).trig
\* C07: m <= until, m = until without trigger inputs, and a step inside an
\* earlier promise window (t_j, m_j] is caused by s itself at or after step j
C07ok(sc, h, s, t, m, cs) ==
  /\ m <= sc.until
  \* (an initial event that the scenario script set for a LATER time is a step for a reason outside the simulator's control as
  \*  well: the promise of a simulator without trigger inputs then ends just before the earliest one still to come)
  \*  (one at or after `until` is never performed, but mosaik keeps it pending: the promise may end at until - 1 then - weaker, still sound)
  \*  (the same for a step the simulator scheduled for itself BEFORE an initial event that it is performing now)
  /\ (~HasTrigIn(sc, s)) => LET later == {u \in InitEvs(sc, s) : u > t} \cup {d[1] : d \in {e \in h.dem[s] : e[1] > t}}
                            IN m = IF later = {} \/ IMin(later) - 1 > sc.until THEN sc.until ELSE IMin(later) - 1
  /\ \A j \in 1..Len(h.prom[s]) : (h.prom[s][j].t < t /\ t <= h.prom[s][j].m) =>
        \E c \in cs : c[1] = s /\ c[2] >= j

\* C10: with lazy stepping no consumer of s has a step outstanding that is
\* earlier than tau (adapted to the consumer's tiers)
C10ok(sc, h, s, tau) == sc.lazy =>
  \A i \in CIdx(sc) : LET c == Conn(sc, i) IN (c.src = s /\ c.dst # s) =>
     LET lim == Apply(tau, AdaptIv(sc, s, c.dst)) IN
       /\ \A d \in h.dem[c.dst] : ~TLess(d, lim)
       /\ h.infl[c.dst] = None \/ ~TLess(h.infl[c.dst], lim)

\* C10, producer form ("producers never run more than one step ahead of their direct consumers"): the producer
\* waited until the consumer's PROGRESS had reached its step time, and progress accounts for every step the
\* consumer's ancestors can still cause - so once a producer has begun a step at tp, none of its consumers
\* begins a step earlier than tp (adapted to the consumer's tiers) any more
C10prod(sc, h, s, tau) == sc.lazy =>
  \A i \in CIdx(sc) : LET c == Conn(sc, i) IN (c.dst = s /\ c.src # s) =>
     (h.lastd[c.src] = None \/ ~TLess(tau, Apply(h.lastd[c.src], AdaptIv(sc, c.src, s))))

OverLoop(sc, tau) == \E i \in 2..Len(tau) : tau[i] >= sc.maxloop

----------------------------------------------------------------------------
(* The step function.                                                      *)

RefSB(sc, h, ev) ==
  LET s == ev.s  t == ev.t  D == h.dem[s]
      demanded == /\ D # {}
                  /\ LET tau0 == TMin(D) IN
                       /\ tau0[1] = t /\ t >= 0 /\ t < sc.until
                       /\ (h.lastd[s] = None \/ TLess(h.lastd[s], tau0))
  IN
  IF ~demanded THEN
     [h |-> [h EXCEPT !.dead = TRUE],
      v |-> Viol("C02_step_not_demanded_or_out_of_order", <<s, t, D, h.lastd[s]>>)
            \o Cond(h.mal = None \/ h.mal[1] # s, "C13_step_after_malformed_reply", <<s, t, h.mal>>)]
  ELSE
  LET tau == TMin(D)
      cs  == StepCauses(h, s, tau)
      inp == ev.inp
      c03 == ~DataOn(sc) \/ C03ok(sc, h, s, tau, inp)
      v == Cond(C01cons(sc, h, s, tau), "C01_consumer_began_before_producer_finished", <<s, tau, h.infl>>)
        \o Cond(C01prod(sc, h, s, tau), "C01_producer_stepped_in_consumers_past", <<s, tau, h.lastd>>)
        \o (IF c03 THEN NoV
            ELSE IF HasSubsteps(sc) /\ C03okI(sc, h, s, tau, inp)
              THEN Viol("C03_inputs__sig_integer_time_data_plane", <<s, tau>>)
              ELSE Viol("C03_inputs", <<s, tau, inp, [i \in InConns(sc, s) |-> Expect(sc, h, i, tau)], SetdFor(h, s)>>))
        \o Cond(~CauseOn(sc) \/ RT(sc).on \/ C07ok(sc, h, s, t, ev.m, cs), "C07_max_advance", <<s, t, ev.m, h.prom[s], cs>>)
        \o Cond(C16order(sc, h, s, tau), "C16_async_order", <<s, tau, h.infl>>)
        \o Cond(~DataOn(sc) \/ C16deliv(sc, h, s, tau, inp), "C16_set_data_not_delivered_exactly_once_in_next_step", <<s, tau, inp, SetdFor(h, s)>>)
        \o Cond(C10ok(sc, h, s, tau), "C10_lazy", <<s, tau, h.dem, h.infl>>)
        \o Cond(C10prod(sc, h, s, tau), "C10_consumer_steps_in_the_past_of_a_producer_that_ran_ahead", <<s, tau, h.lastd>>)
        \o Cond(~OverLoop(sc, tau), "C09_substep_beyond_bound_executed", <<s, tau>>)
        \o Cond(h.mal = None \/ h.mal[1] # s, "C13_step_after_malformed_reply", <<s, t, h.mal>>)
        \* C17: a step for time t never begins before K*(t-1) wall-clock ticks after the start
        \o (IF RT(sc).on THEN Cond(ev.w >= RT(sc).K * (t - 1), "C17_step_begins_too_early", <<s, t, ev.w, RT(sc).K>>) ELSE NoV)
      evIn == {i \in InConns(sc, s) : ~Conn(sc, i).pers}
  IN [h |-> [h EXCEPT !.dem[s] = @ \ {tau},
                      !.nd[s] = @ + 1,
                      !.lastd[s] = tau,
                      !.infl[s] = tau,
                      !.scz[s] = IF CauseOn(sc) THEN cs ELSE @,
                      !.cz[s] = {p \in @ : p[1] # tau},
                      !.prom[s] = IF CauseOn(sc) THEN Append(@, [t |-> t, m |-> ev.m]) ELSE @,
                      !.deliv = IF DataOn(sc) THEN @ \cup UNION {{<<i, pi>> : pi \in EvCands(sc, h, i, tau)} : i \in evIn} ELSE @,
                      !.delivI = IF DataOn(sc) THEN @ \cup UNION {{<<i, pi>> : pi \in EvCandsI(sc, h, i, tau)} : i \in evIn} ELSE @,
                      !.setd = @ \ SetdFor(h, s),
                      !.setdopt = @ \ SetdOptFor(h, s),
                      !.steps = IF DebugOn(sc) THEN @ \cup {<<s, tau>>} ELSE @,
                      !.atT = IF t \in DOMAIN @ THEN [@ EXCEPT ![t] = @ + 1] ELSE @ @@ (t :> 1)],
      v |-> v]

RefSE(sc, h, ev) ==
  LET s == ev.s
      t == IF h.infl[s] = None THEN -1 ELSE h.infl[s][1]
      malformed == \/ ev.nk = "bad"
                   \/ (ev.nk = "int" /\ ev.n <= t)
                   \/ (ev.nk = "none" /\ TypeOf(sc, s) = "time-based")
      sched == ~malformed /\ ev.nk = "int" /\ ev.n < sc.until
      me == {<<s, h.nd[s]>>} \cup h.scz[s]
  IN [h |-> [h EXCEPT !.dem[s] = IF sched THEN @ \cup {Flat(sc, s, ev.n)} ELSE @,
                      !.cz[s]  = IF sched /\ CauseOn(sc) THEN @ \cup {<<Flat(sc, s, ev.n), c>> : c \in me} ELSE @,
                      !.infl[s] = IF ev.nodata THEN None ELSE @,
                      !.mal = IF malformed /\ h.mal = None THEN <<s, "next_step">> ELSE @,
                      !.lastse = s],
      v |-> NoV]

RefDE(sc, h, ev) ==
  LET s == ev.s
      cur == h.infl[s]
      malformed == ev.otk = "int" /\ cur # None /\ ev.ot < cur[1]
      skip == cur = None \/ ev.otk # "int" \/ malformed
  IN
  IF skip THEN
     [h |-> [h EXCEPT !.infl[s] = None,
                      !.mal = IF malformed /\ h.mal = None THEN <<s, "output_time">> ELSE @],
      v |-> NoV]
  ELSE
  LET ot == IF ev.ot = cur[1] THEN cur ELSE Flat(sc, s, ev.ot)       \* output time, tiered
      fired == {i \in CIdx(sc) : LET c == Conn(sc, i) IN
                  c.src = s /\ c.data /\ c.trig /\ \E x \in ev.vals : x[1] = c.se /\ x[2] = c.sa}
      newd == [x \in Sids(sc) |->
                 {d \in {Apply(ot, ConnIv(sc, Conn(sc, i))) : i \in {i \in fired : Conn(sc, i).dst = x}} :
                     d[1] < sc.until}]
      late == \E x \in Sids(sc) : \E d \in newd[x] :
                 h.lastd[x] # None /\ TLeq(d, h.lastd[x]) /\ d \notin h.dem[x]
      me == {<<s, h.nd[s]>>} \cup h.scz[s]
  IN [h |-> [h EXCEPT !.dem = [x \in Sids(sc) |-> h.dem[x] \cup newd[x]],
                      !.cz = IF CauseOn(sc) THEN [x \in Sids(sc) |-> h.cz[x] \cup {<<d, c>> : d \in newd[x], c \in me}] ELSE @,
                      !.infl[s] = None,
                      !.prod[s] = IF DataOn(sc) THEN Append(@, [ot |-> ot, vals |-> ev.vals]) ELSE @],
      v |-> Cond(~late, "C01_trigger_delivered_into_the_past", <<s, ot, newd, h.lastd>>)]

\* call-backs of a simulator into mosaik during its step
AsyncAllowed(sc, target, caller) ==
  \E i \in CIdx(sc) : Conn(sc, i).async /\ Conn(sc, i).src = target /\ Conn(sc, i).dst = caller
RefCB(sc, h, ev) ==
  IF ev.f = "set_data" THEN
     LET allowed == \A d \in ev.arg : AsyncAllowed(sc, d.dst, ev.s)
         slot(d) == <<d.dst, d.de, d.da, d.src, d.se>>
         new == IF ev.res = "ok" THEN ev.arg ELSE {}
         opt == IF ev.res = "ok" THEN {} ELSE {d \in ev.arg : AsyncAllowed(sc, d.dst, ev.s)}
     IN [h |-> [h EXCEPT !.setd = {d \in @ : \A e \in new : slot(d) # slot(e)} \cup new, !.setdopt = @ \cup opt],
         v |-> Cond(allowed <=> ev.res = "ok", "C16_refusal", <<ev.s, ev.arg, ev.res>>)
               \o Cond(allowed => ev.res = "ok", "C16_set_data_failed", <<ev.s, ev.res>>)]
  ELSE IF ev.f = "get_data" THEN
     LET allowed == \A d \in ev.arg : AsyncAllowed(sc, d, ev.s)
     IN [h |-> h, v |-> Cond(allowed <=> ev.res = "ok", "C16_refusal", <<ev.s, ev.arg, ev.res>>)]
  ELSE IF ev.f = "set_event" THEN
     \* C17: outside real-time mode an error to the caller; otherwise a step at t is demanded if t < until,
     \* and an event at or after until is ignored with a warning
     LET s == ev.s  t == ev.arg  on == RT(sc).on
         sched == on /\ ev.res = "ok" /\ t < sc.until /\ t >= 0
     IN [h |-> [h EXCEPT !.dem[s] = IF sched THEN @ \cup {Flat(sc, s, t)} ELSE @,
                         !.expwarn = IF on /\ ev.res = "ok" /\ t >= sc.until THEN @ + 1 ELSE @],
         v |-> Cond(on => ev.res = "ok", "C17_set_event_failed_in_real_time_mode", <<s, t, ev.res>>)
               \o Cond((~on) => ev.res = "SimulationError", "C17_set_event_outside_real_time_mode_not_refused", <<s, t, ev.res>>)]
  ELSE [h |-> h, v |-> NoV]

\* A simulator that is connected to another one waits for that one's progress, and progress is capped by the
\* wall clock: it can begin its step for t only after wall-clock time t and is therefore ALWAYS behind (finding D30).
\* An independent simulator (no connection to another simulator) that answers instantly can be behind only by the
\* strictly increasing clock reads (late = 0 ticks, finding D19); if it is behind by more, a wake-up was missed.
Connected(sc, s) == \E i \in CIdx(sc) : LET c == Conn(sc, i) IN (c.src = s \/ c.dst = s) /\ c.src # c.dst
RefLOG(sc, h, ev) ==
  IF ev.cat = "too_slow" THEN
     [h |-> [h EXCEPT !.slow = @ + 1],
      v |-> IF ~RT(sc).instant THEN NoV
            ELSE IF ev.late <= 0 \/ h.lastse = "" THEN Viol("C17_instant_run_reported_too_slow", <<ev.w, ev.late>>)
            ELSE IF Connected(sc, h.lastse) THEN Viol("C17_instant_run_reported_too_slow__sig_connected_simulator_behind_wall_clock", <<h.lastse, ev.w, ev.late>>)
            ELSE Viol("C17_instant_independent_simulator_began_late", <<h.lastse, ev.w, ev.late>>)]
  ELSE IF ev.cat = "event_after_end" THEN [h |-> [h EXCEPT !.warned = @ + 1], v |-> NoV]
  ELSE [h |-> h, v |-> NoV]

\* C14: a simulator failed (FAULT event: the harness closed its connection, made it raise, ...).
\* run() must end promptly with an error - or return after logging the error a remote simulator
\* reported -, every OTHER simulator gets stop/finalize exactly once (the failed one at most once),
\* the event loop is closed and no task is pending when it is closed.
RefFaultEND(sc, h, ev) ==
  LET f == h.fault[1]  kind == h.fault[2] IN
  Cond(ev.r \notin {"deadlock", "livelock"}, "C14_run_hangs_after_simulator_failure", <<h.fault, ev.r>>)
  \* (a simulator that dies idle AFTER its last request cannot be noticed: returning normally is then fine)
  \o Cond(ev.r # "ok" \/ kind \in {"remote_exception", "eof_idle"}, "C14_failure_swallowed", <<h.fault, ev.r>>)
  \o Cond(\A s \in Sids(sc) \ {f} : h.stops[s] = 1, "C14_other_simulator_not_stopped_exactly_once", <<h.fault, h.stops>>)
  \o Cond(h.stops[f] <= 1, "C14_failed_simulator_stopped_twice", <<h.fault, h.stops>>)
  \o Cond(ev.closed, "C14_event_loop_not_closed", <<h.fault>>)
  \o Cond(ev.pend = 0, "C14_pending_event_loop_work_left_behind", <<h.fault, ev.pend, ev.pendnames>>)

RefEND(sc, h, ev) ==
  LET lost == \E s \in Sids(sc) : h.dem[s] # {}
      \* the loop guard is justified if the named simulator's next step is beyond the bound in the scheduler's tiered
      \* arithmetic (guardJust) AND -- independently of that arithmetic -- a same-time loop is really in progress
      \* (guardCount): the chain of at least maxloop weak hops that leads to the refused sub-step consists of steps
      \* performed at this integer time, so at least maxloop steps began at it ("sub-steps within one time step")
      overdue == \E s \in Sids(sc) : h.dem[s] # {} /\ OverLoop(sc, TMin(h.dem[s]))
      inLoop == \E s \in Sids(sc) : h.lastd[s] # None /\ (\E i \in 2..Len(h.lastd[s]) : h.lastd[s][i] > 0)
                                     /\ \A x \in Sids(sc) : h.lastd[x] = None \/ h.lastd[x][1] <= h.lastd[s][1]
      guardJust == \E s \in ev.names : h.dem[s] # {} /\ OverLoop(sc, TMin(h.dem[s]))
      guardCount == \E s \in ev.names : h.dem[s] # {} /\ OverLoop(sc, TMin(h.dem[s]))
                                         /\ (IF TMin(h.dem[s])[1] \in DOMAIN h.atT THEN h.atT[TMin(h.dem[s])[1]] ELSE 0) >= sc.maxloop
      v == IF h.fault # None THEN RefFaultEND(sc, h, ev)
           ELSE IF h.mal # None THEN
              Cond(ev.r # "ok", "C13_malformed_reply_accepted", <<h.mal, ev.r>>)
              \* (another simulator's process may legitimately abort the run first - a justified loop-guard error raised in the
              \*  same instant wins the race for run()'s exception; the malformed reply is then neither accepted nor mis-reported)
              \o Cond(ev.r = "ok" \/ h.mal[1] \in ev.names \/ (ev.cat = "loop_guard" /\ guardJust),
                      "C13_error_does_not_identify_simulator", <<h.mal, ev.r, ev.cat, ev.names>>)
           ELSE IF ev.r = "ok" THEN Cond(~lost, "C02_lost_step", h.dem)
                                     \o Cond(h.warned >= h.expwarn, "C17_event_after_end_ignored_without_warning", <<h.warned, h.expwarn>>)
           ELSE IF ev.cat = "too_slow" THEN         \* RuntimeError of rt_strict
              Cond(RT(sc).on /\ RT(sc).strict, "C17_too_slow_error_without_rt_strict", <<ev.r>>)
              \o Cond(~RT(sc).instant, "C17_instant_run_reported_too_slow", <<"rt_strict">>)
           ELSE IF ev.cat = "loop_guard" THEN
              Cond(guardJust, "C09_guard_fired_without_cause", <<ev.names, h.dem>>)
              \o Cond(~guardJust \/ guardCount, "C09_guard_counts_hops_of_earlier_time_steps", <<ev.names, h.dem, h.atT>>)
           ELSE IF ev.cat = "cycle" THEN            \* rejected by the cycle check: C06 judges whether rightly so
              Cond(\A s \in Sids(sc) : h.nd[s] = 0, "C06_step_before_rejection", h.nd)
           ELSE Viol("C05_run_failed", <<ev.r, ev.cat>>)
                \* ... and if a simulator's next step is beyond the loop bound, the run had to end with the loop guard's
                \* SimulationError naming it - not with some other exception (e.g. one raised while the message is built)
                \o Cond(~(ev.cat = "other" /\ overdue), "C09_bound_exceeded_but_no_simulation_error_naming_the_simulator", <<ev.r, h.dem>>)
                \* ... and a same-time loop that has not exceeded the bound is never interrupted: if the run dies of an internal
                \* error while some simulator's last step was a sub-step > 0 of the time at which the run ended, a loop was cut short
                \o Cond(~(ev.cat \in {"backwards", "already_progressed", "other"} /\ ~overdue /\ inLoop),
                        "C09_loop_within_the_bound_interrupted_by_an_internal_error", <<ev.r, ev.cat, h.lastd>>)
  IN [h |-> h, v |-> v]

\* Debug mode (World(debug=True)): the execution graph that mosaik records.  Its nodes are exactly the steps
\* performed -- with the TIERED time the scheduler used, which the API boundary does not show otherwise -- and every
\* edge is causal: a self-step edge goes forward in time, a data-flow edge respects the delay of a connection
\* from the predecessor, an edge from an agent goes to the simulator that serves its asynchronous requests.
\* (Not one of the listed properties; clauses EG_* are reported as conformance drift, never as a verdict.)
EGEdgeOk(sc, e) ==
  LET p == e[1]  tp == e[2]  s == e[3]  ts == e[4] IN
  \/ p = s /\ TLess(tp, ts)
  \/ \E i \in CIdx(sc) : LET c == Conn(sc, i) IN
        \/ (c.src = p /\ c.dst = s /\ \E d \in WaitIvs(sc, c) : TLeq(Apply(tp, d), ts))
        \/ (c.async /\ c.src = s /\ c.dst = p)
\* (Until the repair of D31 the debug hook added an edge from the LAST step of each agent even if the agent had not stepped
\* yet, which showed up as a phantom node with time -1; no node is tolerated any more that is not a step.)
EGPhantom(sc, n) == FALSE
RefEG(sc, h, ev) ==
  [h |-> h,
   v |-> Cond(LET real == {n \in ev.nodes : ~EGPhantom(sc, n)} IN
              IF ev.r = "ok" THEN real = h.steps ELSE h.steps \subseteq real,
              "EG_nodes_are_not_the_steps_performed", <<ev.nodes \ h.steps, h.steps \ ev.nodes>>)
         \o Cond(\A e \in ev.edges : <<e[1], e[2]>> \in ev.nodes /\ <<e[3], e[4]>> \in ev.nodes /\ EGEdgeOk(sc, e),
                 "EG_edge_not_causal", {e \in ev.edges : ~EGEdgeOk(sc, e)})]

\* Request protocol at the simulator-API boundary (clauses PR_*; like EG_* they are conformance of the specification's
\* picture of a run, not one of the listed properties, and never a verdict): every simulator gets setup_done exactly once,
\* no simulator is stepped before ALL of them have, requests to one simulator are strictly sequential
\* (step -> its reply -> get_data iff outputs are connected -> its reply), and nothing is requested after stop.
\* Switched on by the scenario field proto (recorded executions; the events of MosaikSched carry no SETUP / DB).
ProtoOn(sc) == IF "proto" \in DOMAIN sc THEN sc.proto ELSE FALSE
ProtoStep(sc, h, ev) ==
  LET s == ev.s  ph == h.ph
      to(x) == [ph EXCEPT ![s] = x]
      bad(c) == Viol(c, <<s, ev.k, ph>>)
      after == IF ph[s] = "stopped" THEN bad("PR_request_after_stop") ELSE NoV
  IN IF ~ProtoOn(sc) \/ ev.k \notin {"SETUP", "SB", "SE", "DB", "DE", "STOP"} THEN [ph |-> ph, v |-> NoV]
     ELSE CASE ev.k = "SETUP" -> [ph |-> to("idle"), v |-> after \o Cond(ph[s] \in {"new", "stopped"}, "PR_setup_done_repeated_or_after_a_step", <<s, ph[s]>>)]
            [] ev.k = "SB"    -> [ph |-> to("step"),
                                  v |-> after \o Cond(ph[s] \in {"idle", "stopped"}, "PR_step_requested_while_another_request_is_outstanding_or_before_setup_done", <<s, ph[s]>>)
                                        \o Cond(\A x \in Sids(sc) : ph[x] # "new", "PR_step_before_every_simulator_received_setup_done", ph)]
            [] ev.k = "SE"    -> [ph |-> IF ph[s] = "stopped" THEN ph ELSE to(IF ev.nodata THEN "idle" ELSE "stepped"),
                                  v |-> Cond(ph[s] \in {"step", "stopped"}, "PR_step_reply_without_request", <<s, ph[s]>>)]
            \* get_data: mosaik's own request directly after a step with connected outputs - or, while an agent that may
            \* send asynchronous requests to s is in its step, the agent's get_data passed on to s (s idle)
            [] ev.k = "DB"    -> [ph |-> to(IF ph[s] = "idle" THEN "data_idle" ELSE "data"),
                                  v |-> after \o Cond(ph[s] \in {"stepped", "stopped"}
                                                       \/ (ph[s] = "idle" /\ \E b \in Sids(sc) : ph[b] = "step" /\ AsyncAllowed(sc, s, b)),
                                                       "PR_get_data_neither_after_a_step_with_connected_outputs_nor_for_an_agent", <<s, ph>>)]
            [] ev.k = "DE"    -> [ph |-> IF ph[s] = "stopped" THEN ph ELSE to("idle"),
                                  v |-> Cond(ph[s] \in {"data", "data_idle", "stopped"}, "PR_get_data_reply_without_request", <<s, ph[s]>>)]
            [] OTHER          -> [ph |-> to("stopped"), v |-> Cond(ph[s] # "stopped", "PR_stopped_twice", <<s>>)]

----------------------------------------------------------------------------
(* Information requests (IR_* clauses): get_progress and get_related_entities, the two requests of the simulator API  *)
(* next to set_data / get_data / set_event.  Not a listed property: reported as drift, like PR_* and EG_*.            *)
(*                                                                                                                   *)
(* get_progress answers World.sim_progress, which mosaik recomputes whenever a step has been completed (outputs       *)
(* retrieved): the mean of the simulators' progress times as a percentage of `until`.  The reference does not model   *)
(* progress; it BOUNDS it from the observable history.  For every simulator x, as of the last completed step:         *)
(*   progress(x) <= Hi(x) = min(until, times of x's outstanding demands, time of x's step in flight)                  *)
(*       (a simulator's progress never passes a step it still has to perform - otherwise the step would lie in its    *)
(*        past, C01/C05)                                                                                              *)
(*   progress(x) >= Lo(x) = max(time of the last step x began, min of Hi over x and every simulator with a path of    *)
(*        trigger connections to x)   (nothing but an outstanding step of x or of a triggering ancestor can hold x    *)
(*        back - otherwise x waits for something that cannot come, C05/C07)                                           *)
(* In real-time mode the wall clock caps progress as well, so only the first lower bound is used there.               *)
InfoOn(sc) == IF "info" \in DOMAIN sc THEN sc.info ELSE FALSE
TrigPre(sc, s) == {Conn(sc, i).src : i \in {j \in CIdx(sc) : Conn(sc, j).dst = s /\ Conn(sc, j).data /\ Conn(sc, j).trig}}
RECURSIVE AncClose(_, _, _)
AncClose(sc, S, k) == IF k = 0 THEN S ELSE AncClose(sc, S \cup UNION {TrigPre(sc, x) : x \in S}, k - 1)
AncTrig(sc, s) == AncClose(sc, {s}, Len(sc.sims))
PgHi(sc, h, x) == IMin({sc.until} \cup {d[1] : d \in h.dem[x]} \cup (IF h.infl[x] = None THEN {} ELSE {h.infl[x][1]}))
PgLo(sc, h, x) == LET began == IF h.lastd[x] = None THEN 0 ELSE h.lastd[x][1]
                      free  == IMin({PgHi(sc, h, a) : a \in AncTrig(sc, x)})
                  IN IF RT(sc).on THEN began ELSE IF began > free THEN began ELSE free
RECURSIVE PgSum(_, _, _, _)
PgSum(sc, h, Op(_, _, _), n) == IF n = 0 THEN 0 ELSE Op(sc, h, sc.sims[n].sid) + PgSum(sc, h, Op, n - 1)
\* a step has been completed: its outputs were retrieved, or there were none to retrieve
Completes(h, ev) == (ev.k = "DE" /\ h.infl[ev.s] # None) \/ (ev.k = "SE" /\ ev.nodata)
InfoSnap(sc, h0, h, ev) ==
  IF InfoOn(sc) /\ ~h.dead /\ Completes(h0, ev)
    THEN [h EXCEPT !.pg = [lo |-> PgSum(sc, h, PgLo, Len(sc.sims)), hi |-> PgSum(sc, h, PgHi, Len(sc.sims)), last |-> @.last]]
    ELSE h

\* the entity graph: one node per created entity (with its model name), one undirected edge per pair of entities that a
\* connect() call joined (data connections and asynchronous-request connections alike)
Pair(a, b) == {a, b}
FullId(s, e) == <<s, e>>
\* ... plus one per relation that a simulator declared for its own entities in create() (rels: the harness's record of its replies)
ExpEdges(sc, rels) == {Pair(FullId(Conn(sc, i).src, Conn(sc, i).se), FullId(Conn(sc, i).dst, Conn(sc, i).de)) : i \in CIdx(sc)}
                      \cup {Pair(r[1], r[2]) : r \in rels}
Neigh(sc, rels, n) == {m \in UNION ExpEdges(sc, rels) : Pair(n, m) \in ExpEdges(sc, rels)}
RefInfo(sc, h, ev) ==
  IF ev.f = "get_progress" THEN
     \* ev.arg: the answer, converted back to the sum of the progress times (-1: not a whole number, -2: the request failed)
     LET judged == h.mal = None /\ h.fault = None IN
     [h |-> [h EXCEPT !.pg.last = IF ev.arg >= 0 THEN ev.arg ELSE @],
      v |-> Cond(ev.arg # -2, "IR_get_progress_failed", <<ev.s, ev.res>>)
            \o Cond(~judged \/ ev.arg < 0 \/ (h.pg.lo <= ev.arg /\ ev.arg <= h.pg.hi), "IR_progress_outside_what_the_steps_performed_allow", <<ev.s, ev.arg, h.pg, h.dem, h.infl, h.lastd>>)
            \o Cond(~judged \/ ev.arg < 0 \/ ev.arg >= h.pg.last, "IR_progress_went_backwards", <<ev.s, ev.arg, h.pg.last>>)
            \o Cond(ev.arg # -1, "IR_progress_is_not_the_mean_of_whole_progress_times", <<ev.s>>)]
  ELSE
     \* get_related_entities.  ev.created: every entity the simulators returned from create() as <<sid, eid, type>>;
     \* ev.shape in {"all", "one", "many"}; ev.q: the entities asked about; ev.nodes / ev.edges (shape all) or ev.rel
     \* (<<asked entity, related entity, its type>>) as mosaik answered
     LET typeOf(n) == (CHOOSE c \in ev.created : <<c[1], c[2]>> = n)[3]
         known(n) == \E c \in ev.created : <<c[1], c[2]>> = n
         expNodes == {<<c[1], c[2], c[3]>> : c \in ev.created}
         expRel == UNION {{<<q, m, typeOf(m)>> : m \in {m2 \in Neigh(sc, ev.rels, q) : known(m2)}} : q \in ev.q}
     IN [h |-> h,
         v |-> Cond(ev.res = "ok", "IR_get_related_entities_failed", <<ev.s, ev.shape, ev.res>>)
               \o (IF ev.res # "ok" THEN NoV
                   ELSE IF ev.shape = "all"
                     THEN Cond(ev.nodes = expNodes, "IR_entity_graph_nodes_are_not_the_created_entities", <<ev.s, ev.nodes, expNodes>>)
                          \o Cond({Pair(e[1], e[2]) : e \in ev.edges} = ExpEdges(sc, ev.rels), "IR_entity_graph_edges_are_not_the_connected_pairs", <<ev.s, ev.edges, ExpEdges(sc, ev.rels)>>)
                     ELSE Cond(ev.rel = expRel, "IR_related_entities_are_not_the_connected_ones", <<ev.s, ev.q, ev.rel, expRel>>))]

RefStep0(sc, h, ev) ==
  IF h.dead THEN
     \* the bookkeeping stopped after a step nobody demanded; how the run ENDS is still judged (C05 is about the outcome)
     [h |-> h,
      v |-> IF ev.k = "END" /\ ev.r # "ok" /\ h.fault = None /\ h.mal = None /\ ev.cat \notin {"loop_guard", "cycle", "too_slow"}
            THEN Viol("C05_run_failed", <<ev.r, ev.cat>>)
            \* ... and a malformed reply that was seen before the bookkeeping stopped must still have aborted the run
            ELSE IF ev.k = "END" /\ ev.r = "ok" /\ h.fault = None /\ h.mal # None
            THEN Viol("C13_malformed_reply_accepted", <<h.mal, ev.r>>) ELSE NoV]
  ELSE CASE ev.k = "SB"  -> RefSB(sc, h, ev)
         [] ev.k = "SE"  -> RefSE(sc, h, ev)
         [] ev.k = "DE"  -> RefDE(sc, h, ev)
         [] ev.k = "CB"  -> IF ev.f \in {"get_progress", "get_related_entities"} THEN RefInfo(sc, h, ev) ELSE RefCB(sc, h, ev)
         [] ev.k = "END" -> RefEND(sc, h, ev)
         [] ev.k = "LOG" -> RefLOG(sc, h, ev)
         [] ev.k = "EG"  -> RefEG(sc, h, ev)
         [] ev.k = "STOP" -> [h |-> [h EXCEPT !.stops[ev.s] = @ + 1], v |-> NoV]
         [] ev.k = "FAULT" -> [h |-> [h EXCEPT !.fault = IF @ = None THEN <<ev.s, ev.kind>> ELSE @], v |-> NoV]
         [] OTHER        -> [h |-> h, v |-> NoV]

RefStep(sc, h, ev) ==
  LET r == RefStep0(sc, h, ev)  p == ProtoStep(sc, h, ev) IN [h |-> InfoSnap(sc, h, [r.h EXCEPT !.ph = p.ph], ev), v |-> r.v \o p.v]

Clauses(v) == {v[i].c : i \in 1..Len(v)}
=============================================================================

------------------------------ MODULE DetTrace ------------------------------
(***************************************************************************)
(* (T) for C04: schedule and configuration independence.                   *)
(*                                                                         *)
(* For deterministic simulators the sequence of (time, inputs) each        *)
(* simulator observes is a function of the scenario alone.  Every batch    *)
(* item carries the observation sequences of the CANONICAL run (lazy       *)
(* stepping, cache on, debug off, in-process style FIFO schedule) and the  *)
(* recorded events of another run of the same scenario (other reply        *)
(* interleaving / start order / connect order / lazy / cache / debug /     *)
(* transport).  The k-th step() call of every simulator must equal the     *)
(* k-th canonical observation, and at the end no canonical observation may *)
(* be missing.  When the canonical run is aborted (e.g. by the same-time   *)
(* loop guard) only the outcome is compared (compare = FALSE): which steps *)
(* other simulators still perform before the abort is schedule-dependent   *)
(* by nature.                                                              *)
(*   <<"V04", tid, l, clause, sim, k>>     <<"T04", tid, n>>                *)
(***************************************************************************)
EXTENDS Naturals, Sequences, FiniteSets, TLC, Json, IOUtils

Batch == JsonDeserialize(IOEnv.TRACE_FILE)
NT == Len(Batch)

VARIABLES tid, l, pos, nv
vars == <<tid, l, pos, nv>>

SimsOf(n) == DOMAIN Batch[n].canon
ToSet(q) == {q[j] : j \in 1..Len(q)}
Ev == Batch[tid].ev[l]

Init == tid = 1 /\ l = 1 /\ pos = [s \in SimsOf(1) |-> 0] /\ nv = 0

Same(obs, e) == obs.t = e.t /\ ToSet(obs.inp) = ToSet(e.inp)

Consume ==
  /\ l <= Len(Batch[tid].ev)
  /\ IF Ev.k = "SB" /\ Batch[tid].compare THEN
        LET s == Ev.s  k == pos[s] + 1  can == Batch[tid].canon[s] IN
        /\ pos' = [pos EXCEPT ![s] = k]
        /\ IF k > Len(can) THEN PrintT(<<"V04", tid, l, "C04_extra_step", s, k>>) /\ nv' = nv + 1
           ELSE IF ~Same(can[k], Ev) THEN
                PrintT(<<"V04", tid, l, IF can[k].t # Ev.t THEN "C04_step_time_differs" ELSE "C04_inputs_differ", s, k>>) /\ nv' = nv + 1
           ELSE UNCHANGED nv
     ELSE IF Ev.k = "SB" THEN UNCHANGED <<pos, nv>>
     ELSE IF Ev.k = "END" THEN
        \* (C17, items with strictcmp: this is the rt_strict run of a real-time scenario, strictcmp.reports = number of too-slow
        \* reports of the same run without rt_strict: "turns the first too-slow report into a RuntimeError and changes nothing else")
        /\ IF "strictcmp" \in DOMAIN Batch[tid] /\ (Ev.cat = "too_slow") # (Batch[tid].strictcmp.reports > 0) THEN
              PrintT(<<"V04", tid, l, IF Ev.cat = "too_slow" THEN "C04_strict_error_without_any_too_slow_report_in_the_non_strict_run"
                                      ELSE "C04_no_strict_error_although_the_non_strict_run_reports_too_slow", Ev.r, 0>>) /\ nv' = nv + 1
           ELSE IF Ev.r # Batch[tid].canon_r THEN PrintT(<<"V04", tid, l, "C04_outcome_differs", Ev.r, 0>>) /\ nv' = nv + 1
           ELSE IF Batch[tid].compare /\ Ev.r = "ok" /\ \E s \in SimsOf(tid) : pos[s] < Len(Batch[tid].canon[s])
             THEN PrintT(<<"V04", tid, l, "C04_missing_step", CHOOSE s \in SimsOf(tid) : pos[s] < Len(Batch[tid].canon[s]), 0>>) /\ nv' = nv + 1
           ELSE UNCHANGED nv
        /\ UNCHANGED pos
     ELSE UNCHANGED <<pos, nv>>
  /\ l' = l + 1 /\ UNCHANGED tid

NextTrace ==
  /\ l = Len(Batch[tid].ev) + 1
  /\ PrintT(<<"T04", tid, nv>>)
  /\ IF tid < NT THEN tid' = tid + 1 /\ l' = 1 /\ pos' = [s \in SimsOf(tid + 1) |-> 0] /\ nv' = 0
     ELSE l' = l + 1 /\ UNCHANGED <<tid, pos, nv>>

Next == Consume \/ NextTrace
Spec == Init /\ [][Next]_vars
=============================================================================

-------------------------- MODULE BulkConnectTable --------------------------
(***************************************************************************)
(* (T) for C18: recorded runs of the real connect_randomly /               *)
(* connect_many_to_one are replayed against the rules of BulkConnect.tla   *)
(* (same Allowed / round rules, written over the row's own parameters).    *)
(* Rows: [ns, nd, evenly, maxc (0 = unlimited), calls (sequence of         *)
(* <<source, destination>> indices), ret (destinations), ok].              *)
(***************************************************************************)
EXTENDS Naturals, Sequences, FiniteSets, TLC, Json, IOUtils


Tab == JsonDeserialize(IOEnv.TRACE_FILE)
NR == Len(Tab)
Chunk == 500
Chunks == (NR + Chunk - 1) \div Chunk

RowViol(n) ==
  LET r == Tab[n]
      D == 1..r.nd
      AllowedR(d, c, u) == IF r.evenly THEN d \notin u ELSE (r.maxc = 0 \/ c[d] < r.maxc)
      RECURSIVE Fold(_, _, _)
      \* returns <<ok so far, counts>> after replaying calls i..Len
      Fold(i, c, u) ==
        IF i > Len(r.calls) THEN <<TRUE, c>>
        ELSE LET s == r.calls[i][1]  d == r.calls[i][2] IN
             IF s # i \/ d \notin D \/ ~AllowedR(d, c, u) THEN <<FALSE, c>>
             ELSE Fold(i + 1, [c EXCEPT ![d] = @ + 1],
                       IF r.evenly THEN (IF Cardinality(u) + 1 = r.nd THEN {} ELSE u \cup {d}) ELSE u)
      res == Fold(1, [d \in D |-> 0], {})
      c == res[2]
      feasible == r.evenly \/ r.maxc = 0 \/ r.ns <= r.nd * r.maxc
      ret == {r.ret[i] : i \in 1..Len(r.ret)}
  IN IF ~feasible THEN {}
     ELSE (IF ~r.ok THEN {"C18_helper_raised"} ELSE {})
          \cup (IF ~res[1] THEN {"C18_connection_not_allowed_by_specification"} ELSE {})
          \cup (IF r.ok /\ Len(r.calls) # r.ns THEN {"C18_not_every_source_connected_exactly_once"} ELSE {})
          \cup (IF r.ok /\ res[1] /\ r.evenly /\ \E a, b \in D : c[a] > c[b] + 1 THEN {"C18_not_even"} ELSE {})
          \cup (IF r.ok /\ res[1] /\ ~r.evenly /\ r.maxc # 0 /\ \E d \in D : c[d] > r.maxc THEN {"C18_max_connects_exceeded"} ELSE {})
          \cup (IF r.ok /\ res[1] /\ ret # {d \in D : c[d] >= 1} THEN {"C18_returned_set_wrong"} ELSE {})

VARIABLE k
TInit == k = 1
TNext == k <= Chunks /\ PrintT(<<"R18", k, Chunks, UNION {{<<cl, n>> : cl \in RowViol(n)} :
                                   n \in ((k - 1) * Chunk + 1)..(IF k * Chunk < NR THEN k * Chunk ELSE NR)}>>) /\ k' = k + 1
TSpec == TInit /\ [][TNext]_k
=============================================================================

---------------------------- MODULE TieredOrder ----------------------------
(***************************************************************************)
(* (R) for C08: what "order-consistent delay arithmetic" means, and the    *)
(* validation of the recorded results of the real TieredInterval /         *)
(* TieredTime operators against it.                                        *)
(*                                                                         *)
(* A delay IS the function  departure time |-> arrival time  (Apply).      *)
(* The semantic order is the pointwise one:                                *)
(*    IvLeq(a, b) == \A time : Apply(time, a) <= Apply(time, b)            *)
(* evaluated over a time domain that exceeds the tier bound of the         *)
(* intervals (otherwise an adding tier can never overtake a setting tier). *)
(*                                                                         *)
(* The table (JSON, recorded by checks/pure.py from /repo's working tree): *)
(*   classes: intervals of one (length, pre_length) class with the result  *)
(*            matrices of <, ==, >, <= ("T", "F", "I" = raised             *)
(*            'incomparable') and of min(a, b) (index or 0 = raised)       *)
(*   adds:    a + b for all type-correct pairs (result or "E")             *)
(*   applies: time + interval                                              *)
(* Per phase the set of violated clauses is printed:                       *)
(*   <<"R08", phase, phases, {<<clause, i, j>>, ...}>>                     *)
(***************************************************************************)
EXTENDS Tiered, TLC, Json, IOUtils

Tab == JsonDeserialize(IOEnv.TRACE_FILE)
TimeMax == Tab.timemax

\* the tier values of the departure times over which delays are compared pointwise: 0..TimeMax, or an explicit list
\* (tables with LARGE tier values, e.g. {0, 1, 300, 301})
TimeVals == IF "tvals" \in DOMAIN Tab THEN {Tab.tvals[i] : i \in 1..Len(Tab.tvals)} ELSE 0..TimeMax
Times(p) == [1..p -> TimeVals]
IvLeq(a, b) == \A t \in Times(a.p) : TLeq(Apply(t, a), Apply(t, b))
IvEq(a, b)  == \A t \in Times(a.p) : Apply(t, a) = Apply(t, b)
Comparable(a, b) == IvLeq(a, b) \/ IvLeq(b, a)

VARIABLE k
NC == Len(Tab.classes)
NA == Len(Tab.adds)
NP == Len(Tab.applies)
ChunkA == 2000

\* NB: the checks are written as plain EXPRESSIONS (sets of violated clauses) and printed; written as
\* action-level conjunctions/disjunctions TLC would explore both disjuncts and recurse per element.

PairClauses == {"C08_not_exactly_one_of_lt_eq_gt", "C08_gt_is_not_converse_of_lt", "C08_le_inconsistent",
                "C08_smaller_delay_arrives_later", "C08_equal_delays_differ", "C08_orders_pointwise_incomparable",
                "C08_not_transitive", "C08_min_depends_on_argument_order", "C08_min_is_not_a_lower_bound"}

ClassViol(ci) ==
  LET Cls == Tab.classes[ci]
      N == Len(Cls.ivs)
      Iv(i) == Cls.ivs[i]
      Lt(i, j) == Cls.lt[i][j]
      Eq(i, j) == Cls.eq[i][j]
      Gt(i, j) == Cls.gt[i][j]
      Le(i, j) == Cls.le[i][j]
      raises(i, j) == Lt(i, j) = "I" \/ Lt(j, i) = "I"
      Holds(c, i, j) ==
        CASE c = "C08_not_exactly_one_of_lt_eq_gt" ->       \* exactly one of <, ==, >
               (IF Lt(i, j) = "T" THEN 1 ELSE 0) + (IF Eq(i, j) = "T" THEN 1 ELSE 0) + (IF Lt(j, i) = "T" THEN 1 ELSE 0) = 1
          [] c = "C08_gt_is_not_converse_of_lt" -> Gt(i, j) = Lt(j, i)
          [] c = "C08_le_inconsistent" -> ((Le(i, j) = "T") <=> (Lt(i, j) = "T" \/ Eq(i, j) = "T"))
          \* a smaller delay never yields a later arrival time, for any departure time
          [] c = "C08_smaller_delay_arrives_later" -> (Lt(i, j) = "T" => IvLeq(Iv(i), Iv(j)))
          [] c = "C08_equal_delays_differ" -> (Eq(i, j) = "T" => IvEq(Iv(i), Iv(j)))
          \* delays the code orders are comparable
          [] c = "C08_orders_pointwise_incomparable" -> Comparable(Iv(i), Iv(j))
          [] c = "C08_not_transitive" -> (Lt(i, j) = "T" => \A m \in 1..N : (Lt(j, m) = "T" => Lt(i, m) \in {"T", "I"}))
          \* min does not depend on the argument order (up to ==) and is a lower bound
          [] c = "C08_min_depends_on_argument_order" ->
               (Cls.min[i][j] # 0 /\ Cls.min[j][i] # 0 => Eq(Cls.min[i][j], Cls.min[j][i]) = "T")
          [] c = "C08_min_is_not_a_lower_bound" ->
               (Cls.min[i][j] # 0 => (Le(Cls.min[i][j], i) = "T" /\ Le(Cls.min[i][j], j) = "T"))
      PairViol(i, j) ==
        IF raises(i, j) THEN (IF Comparable(Iv(i), Iv(j)) THEN {"C08_raises_on_comparable"} ELSE {})
        ELSE {c \in PairClauses : ~Holds(c, i, j)}
  IN UNION {{<<c, i, j>> : c \in PairViol(i, j)} : i \in 1..N, j \in 1..N}

AddViol(lo, hi) ==
  UNION {LET r == Tab.adds[n] IN
         (IF r.ok /\ [t |-> r.r.t, c |-> r.r.c, p |-> r.r.p] = Compose(r.a, r.b) THEN {} ELSE {<<"C08_compose_differs_from_specification", n, 0>>})
         \* combining agrees with applying one after the other
         \cup (IF \A t \in Times(r.a.p) : Apply(Apply(t, r.a), r.b) = Apply(t, Compose(r.a, r.b)) THEN {}
               ELSE {<<"C08_combined_delay_disagrees_with_sequential_application", n, 0>>}) : n \in lo..hi}

ApplyViol ==
  UNION {LET r == Tab.applies[n]  res == Apply(r.t, r.iv) IN
         (IF r.ok /\ r.r = res THEN {} ELSE {<<"C08_apply_differs_from_specification", n, 0>>})
         \* adding a delay never moves time backwards (on the tiers that are added to)
         \cup (IF TLeq(SubSeq(r.t, 1, r.iv.c), SubSeq(res, 1, r.iv.c)) THEN {} ELSE {<<"C08_delay_moves_time_backwards", n, 0>>}) : n \in 1..NP}

\* associativity of the specification's Compose on the bounded domain (the code's + equals
\* Compose on every recorded pair, so the law transfers to the code)
Ivs(n, p) == {iv \in [t : [1..n -> 0..Tab.assocmax], c : 1..n, p : {p}] : iv.c <= p}
AssocViol ==
  UNION {{<<"C08_not_associative", a, b>> : a \in {a \in Ivs(q[2], q[1]) : \E b \in Ivs(q[3], q[2]), c \in Ivs(q[4], q[3]) :
                                                   Compose(Compose(a, b), c) # Compose(a, Compose(b, c))}, b \in {0}} :
          q \in (1..3) \X (1..3) \X (1..3) \X (1..3)}

Phases == NC + ((NA + ChunkA - 1) \div ChunkA) + 2
PhaseViol(n) ==
  IF n <= NC THEN ClassViol(n)
  ELSE IF n <= Phases - 2 THEN
     LET lo == (n - NC - 1) * ChunkA + 1  hi == IF lo + ChunkA - 1 < NA THEN lo + ChunkA - 1 ELSE NA IN AddViol(lo, hi)
  ELSE IF n = Phases - 1 THEN ApplyViol
  ELSE AssocViol
Init == k = 1
Next ==
  /\ k <= Phases
  /\ PrintT(<<"R08", k, Phases, PhaseViol(k)>>)
  /\ k' = k + 1
Spec == Init /\ [][Next]_k
=============================================================================

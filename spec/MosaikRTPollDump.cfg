SPECIFICATION Spec
CONSTANTS
  K = 4
  Until = 4
  MaxEv = 3
  RefreshOnWake = TRUE
INVARIANT DumpDone
CHECK_DEADLOCK TRUE

------------------------------- MODULE Cycles -------------------------------
(***************************************************************************)
(* (R) for C06: the SEMANTIC definition of an unresolved data-flow cycle,  *)
(* and the validation of recorded verdicts of World.run() against it.      *)
(*                                                                         *)
(* A cycle is a directed cycle of connections (a self-connection is a      *)
(* cycle of length one).  A connection RESOLVES a cycle if it is           *)
(* time-shifted, or if it is weak and every simulator on the cycle lies in *)
(* the simulator group shared by its two ends.  A scenario must be         *)
(* rejected (ScenarioError, before any step) exactly if it contains a      *)
(* cycle that none of its connections resolves; the cycle named in the     *)
(* error must be a closed walk of existing connections that is itself      *)
(* unresolved.  ZeroWalk ties this graph-theoretic definition to the       *)
(* tiered-delay algebra the implementation uses (a closed walk whose       *)
(* composed delay is all-zero) - the two must agree on every row.          *)
(*                                                                         *)
(* Table rows: [scn, out in {"accepted","ScenarioError","other"}, path     *)
(* (simulator ids named in the error), steps (step() calls observed), msg] *)
(* Output per chunk: <<"R06", chunk, chunks, {<<clause, row>>, ...}>>      *)
(***************************************************************************)
EXTENDS MosaikRef, Json, IOUtils

Tab == JsonDeserialize(IOEnv.TRACE_FILE)
NR == Len(Tab)
Chunk == 1000
Chunks == (NR + Chunk - 1) \div Chunk

Range(q) == {q[i] : i \in 1..Len(q)}
Hop(sc, a, b) == {i \in CIdx(sc) : Conn(sc, i).src = a /\ Conn(sc, i).dst = b}
NextIdx(q, i) == IF i = Len(q) THEN 1 ELSE i + 1

\* group shared by the two ends of c = the first CommonDepth-1 elements of their group paths
InSharedGroup(sc, s, c) ==
  LET d == CommonDepth(sc, c.src, c.dst) - 1  g == GPathOf(sc, c.src)  gs == GPathOf(sc, s)
  IN Len(gs) >= d /\ \A j \in 1..d : gs[j] = g[j]
Resolves(sc, c, K) == c.shift > 0 \/ (c.weak /\ \A s \in K : InSharedGroup(sc, s, c))

\* a closed walk given as the sequence of its simulators (the last hop returns to the first)
IsWalk(sc, q) == \A i \in 1..Len(q) : Hop(sc, q[i], q[NextIdx(q, i)]) # {}
UnresolvedWalk(sc, q) ==
  /\ IsWalk(sc, q)
  /\ \A i \in 1..Len(q) : \E ci \in Hop(sc, q[i], q[NextIdx(q, i)]) : ~Resolves(sc, Conn(sc, ci), Range(q))

SimpleSeqs(sc) == UNION {{q \in [1..n -> Sids(sc)] : \A i, j \in 1..n : i # j => q[i] # q[j]} : n \in 1..Cardinality(Sids(sc))}
Unresolved(sc) == \E q \in SimpleSeqs(sc) : UnresolvedWalk(sc, q)

\* the same statement in the delay algebra: some closed walk has an all-zero composed delay
DelayOf(sc, c) == IF c.data THEN ConnIv(sc, c) ELSE AdaptIv(sc, c.src, c.dst)
RECURSIVE WalkDelays(_, _, _)
WalkDelays(sc, q, i) ==      \* delays of the walk q[1] -> ... -> q[i] -> next
  LET here == {DelayOf(sc, Conn(sc, ci)) : ci \in Hop(sc, q[i], q[NextIdx(q, i)])} IN
  IF i = 1 THEN here ELSE {Compose(a, b) : a \in WalkDelays(sc, q, i - 1), b \in here}
ZeroWalk(sc) == \E q \in SimpleSeqs(sc) : IsWalk(sc, q) /\ \E d \in WalkDelays(sc, q, Len(q)) : IsZeroIv(d)

RowViol(n) ==
  LET r == Tab[n]  sc == r.scn  unres == Unresolved(sc)
      path == r.path                         \* first = last simulator
      walk == IF Len(path) >= 2 THEN SubSeq(path, 1, Len(path) - 1) ELSE path
  IN (IF unres = ZeroWalk(sc) THEN {} ELSE {"SPEC_cycle_definitions_disagree"})
     \cup (IF unres /\ r.out = "accepted" THEN {"C06_unresolved_cycle_accepted"} ELSE {})
     \cup (IF ~unres /\ r.out = "ScenarioError" THEN {"C06_resolved_or_acyclic_scenario_rejected"} ELSE {})
     \cup (IF r.out = "other" THEN {IF unres THEN "C06_rejected_with_wrong_error" ELSE "C06_accepted_scenario_raises_other_error"} ELSE {})
     \cup (IF r.out # "accepted" /\ r.steps > 0 THEN {"C06_step_before_rejection"} ELSE {})
     \cup (IF r.out = "ScenarioError" /\ unres /\
              ~(Len(path) >= 2 /\ path[1] = path[Len(path)] /\ Range(path) \subseteq Sids(sc) /\ UnresolvedWalk(sc, walk))
           THEN {"C06_named_cycle_is_not_an_unresolved_cycle"} ELSE {})

ChunkViol(k) == UNION {{<<c, n>> : c \in RowViol(n)} : n \in ((k - 1) * Chunk + 1)..(IF k * Chunk < NR THEN k * Chunk ELSE NR)}

VARIABLE k
Init == k = 1
Next == k <= Chunks /\ PrintT(<<"R06", k, Chunks, ChunkViol(k)>>) /\ k' = k + 1
Spec == Init /\ [][Next]_k
=============================================================================

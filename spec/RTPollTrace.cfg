SPECIFICATION TSpec
CONSTANTS
  K = 8
  Until = 5
  MaxEv = 8
  RefreshOnWake = TRUE
INVARIANT NoInternalError
INVARIANT Pacing
INVARIANT Prompt
INVARIANT NeverLate
CHECK_DEADLOCK FALSE

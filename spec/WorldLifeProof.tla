--------------------------- MODULE WorldLifeProof ---------------------------
(***************************************************************************)
(* TLAPS: the shutdown bookkeeping of WorldLife is inductive for ANY set   *)
(* of simulator ids, any number of groups and calls (TLC: 3 simulators, 2  *)
(* groups, 7 calls): a simulator's finalize() count is 1 if the loop is    *)
(* closed and it was started, 0 otherwise - hence never 2 (NoDoubleStop),  *)
(* ClosedStopsAll, OpenStopsNone, StopOnlyStarted - and a performed run    *)
(* implies a closed loop.  The cycle test is left uninterpreted: the proof *)
(* holds whatever scenarios the cycle check refuses.                       *)
(***************************************************************************)
EXTENDS WorldLife, TLAPS

IndInv ==
  /\ started \subseteq Sids
  /\ closed \in BOOLEAN /\ ran \in BOOLEAN
  /\ stops = [s \in Sids |-> IF closed /\ s \in started THEN 1 ELSE 0]
  /\ ran => closed

THEOREM InitInv == Init => IndInv
  BY DEF Init, IndInv

THEOREM StepInv == IndInv /\ [Next]_vars => IndInv'
<1> SUFFICES ASSUME IndInv, [Next]_vars PROVE IndInv'
  OBVIOUS
<1>1. ASSUME NEW s \in Sids, Start(s) PROVE IndInv'
  BY <1>1 DEF Start, IndInv, Call
<1>2. ASSUME Enter PROVE IndInv'
  BY <1>2 DEF Enter, IndInv, Call
<1>3. ASSUME Exit PROVE IndInv'
  BY <1>3 DEF Exit, IndInv, Call
<1>4. ASSUME NEW a \in Sids, NEW b \in Sids, Connect(a, b) PROVE IndInv'
  BY <1>4 DEF Connect, IndInv, Call
<1>5. ASSUME Run PROVE IndInv'
  BY <1>5 DEF Run, IndInv, Call, StopAll
<1>6. ASSUME Shutdown PROVE IndInv'
  BY <1>6 DEF Shutdown, IndInv, Call, StopAll
<1>7. ASSUME UNCHANGED vars PROVE IndInv'
  BY <1>7 DEF vars, IndInv
<1> QED
  BY <1>1, <1>2, <1>3, <1>4, <1>5, <1>6, <1>7 DEF Next

THEOREM Consequences == IndInv => NoDoubleStop /\ StopOnlyStarted /\ ClosedStopsAll /\ OpenStopsNone /\ RanImpliesClosed
  BY DEF IndInv, NoDoubleStop, StopOnlyStarted, ClosedStopsAll, OpenStopsNone, RanImpliesClosed
=============================================================================

SPECIFICATION Spec
CONSTANTS
  Sids = {"A", "B", "C"}
  MaxGroups = 2
  MaxCalls = 7
INVARIANT NoDoubleStop
INVARIANT StopOnlyStarted
INVARIANT ClosedStopsAll
INVARIANT OpenStopsNone
INVARIANT RanImpliesClosed
INVARIANT GroupOfStarted
PROPERTY Monotone
PROPERTY RefusedChangesNothing
PROPERTY AtMostOneRun
CHECK_DEADLOCK FALSE

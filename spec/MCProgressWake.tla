-------------------------- MODULE MCProgressWake --------------------------
(* Model-checking instance of ProgressWake: one Progress object, tiered      *)
(* times of depth 2 over {0..2} x {0..1}, the three kinds of connection      *)
(* delay inside one group (none, time-shifted by 1, weak = one sub-step),    *)
(* two concurrent callers.                                                   *)
EXTENDS ProgressWake
MCOwners == {"P"}
MCTimes == {<<a, b>> : a \in 0..2, b \in 0..1}
MCShifts == {[t |-> <<0, 0>>, c |-> 2, p |-> 2], [t |-> <<1, 0>>, c |-> 1, p |-> 2], [t |-> <<0, 1>>, c |-> 2, p |-> 2]}
MCIds == 1..2
MCInit == WInit([o \in MCOwners |-> <<0, 0>>])
MCSpec == MCInit /\ [][WNext]_wvars
=============================================================================

----------------------------- MODULE PathDelays -----------------------------
(***************************************************************************)
(* (R)+(T) for C08, the part "update_min / min over delays": the delay     *)
(* mosaik ACCUMULATES for every (simulator, triggering ancestor) pair      *)
(* (World.cache_triggering_ancestors: a fixpoint of  d(a,m) + d(m,s)  with *)
(* update_min) against the semantic definition.                            *)
(*                                                                         *)
(* A delay IS the function departure time |-> arrival time (Tiered.Apply). *)
(* The paths a ~> s over trigger connections give a SET of delays          *)
(* (Compose along the path).  Whatever order mosaik uses to pick one:      *)
(*   - a pair is recorded iff there is a path,                             *)
(*   - the recorded delay is the delay of one of the paths                 *)
(*     ("combining delays along a path ... agrees with applying them one   *)
(*     after the other"),                                                  *)
(*   - no other path DOMINATES it: arrives no later for every departure    *)
(*     time and strictly earlier for one ("a smaller delay never yields a  *)
(*     later arrival time" - the kept delay is what mosaik treats as the   *)
(*     smallest).                                                          *)
(* Paths whose delays are pointwise incomparable are the open finding D3   *)
(* (the code asserts); such rows carry out = "assert" and are skipped.     *)
(*                                                                         *)
(* Rows: [scn (scenario record), out, anc (seq of [s, a, iv = [t, c, p]])] *)
(***************************************************************************)
EXTENDS MosaikRef, Json, IOUtils

Tab == JsonDeserialize(IOEnv.TRACE_FILE)
NR == Len(Tab)
Chunk == 300
Chunks == (NR + Chunk - 1) \div Chunk

TrigConns(sc) == {i \in CIdx(sc) : Conn(sc, i).data /\ Conn(sc, i).trig}

RECURSIVE Paths(_, _, _, _)
Paths(sc, a, s, k) ==
  IF k = 0 THEN {}
  ELSE {ConnIv(sc, Conn(sc, i)) : i \in {i \in TrigConns(sc) : Conn(sc, i).src = a /\ Conn(sc, i).dst = s}}
       \cup UNION {{Compose(ConnIv(sc, Conn(sc, i)), d) : d \in Paths(sc, Conn(sc, i).dst, s, k - 1)} :
                     i \in {i \in TrigConns(sc) : Conn(sc, i).src = a}}

Deps(p) == [1..p -> 0..2]                       \* departure times, tier values 0..2
NoLater(d, k)  == \A x \in Deps(d.p) : TLeq(Apply(x, d), Apply(x, k))
Dominates(d, k) == NoLater(d, k) /\ \E x \in Deps(d.p) : TLess(Apply(x, d), Apply(x, k))
Iv(x) == [t |-> x.t, c |-> x.c, p |-> x.p]

RowViol(n) ==
  LET r == Tab[n]  sc == r.scn  S == Sids(sc)  N == Cardinality(S)
      rec(s, a) == {Iv(r.anc[j].iv) : j \in {j \in 1..Len(r.anc) : r.anc[j].s = s /\ r.anc[j].a = a}}
  IN IF r.out # "ok" THEN {}
     ELSE UNION {
       LET P == Paths(sc, pr[2], pr[1], N)  R == rec(pr[1], pr[2]) IN
       (IF (P = {}) # (R = {}) THEN {"C08_triggering_ancestor_missing_or_invented"} ELSE {})
       \cup (IF R # {} /\ P # {} /\ ~(R \subseteq P) THEN {"C08_accumulated_delay_is_not_the_delay_of_a_path"} ELSE {})
       \cup (IF \E k \in R : \E d \in P : Dominates(d, k) THEN {"C08_kept_delay_arrives_later_than_another_path_for_some_departure"} ELSE {})
       : pr \in S \X S}

VARIABLE k
Init == k = 1
Next == k <= Chunks /\ PrintT(<<"R08P", k, Chunks, UNION {{<<c, n>> : c \in RowViol(n)} :
                                  n \in ((k - 1) * Chunk + 1)..(IF k * Chunk < NR THEN k * Chunk ELSE NR)}>>) /\ k' = k + 1
Spec == Init /\ [][Next]_k
=============================================================================

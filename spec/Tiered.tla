------------------------------- MODULE Tiered -------------------------------
(***************************************************************************)
(* Tiered (grouped) time of mosaik and the delay intervals that act on it. *)
(*                                                                         *)
(* A tiered time is a non-empty sequence of naturals <<t, s1, ..., sk>>:   *)
(* the simulation time followed by one sub-step counter per enclosing      *)
(* simulator group.  A delay interval is a record [t, c, p]:               *)
(*   t : sequence of tier values, Len(t) = depth of the destination,       *)
(*   c : cutoff - tiers 1..c are ADDED to the departure time, the rest     *)
(*       OVERWRITE it,                                                     *)
(*   p : pre-length = depth of the source (length of the departure time).  *)
(* This mirrors mosaik/tiered_time.py (TieredTime, TieredInterval), but    *)
(* the meaning given here is the semantic one: a delay IS the function     *)
(* departure time |-> arrival time (Apply).                                *)
(***************************************************************************)
EXTENDS Integers, Sequences, FiniteSets

None == <<>>                       \* "no time"; tiered times are non-empty

Zero(n) == [i \in 1..n |-> 0]
FlatT(n, t) == [i \in 1..n |-> IF i = 1 THEN t ELSE 0]

TLess(a, b) == \E i \in 1..Len(a) : (\A j \in 1..(i-1) : a[j] = b[j]) /\ a[i] < b[i]
TLeq(a, b)  == a = b \/ TLess(a, b)
TMin(S) == CHOOSE x \in S : \A y \in S : TLeq(x, y)
TMax(S) == CHOOSE x \in S : \A y \in S : TLeq(y, x)
MinT(a, b) == IF TLeq(a, b) THEN a ELSE b

\* arrival time of a departure at t through delay iv   (TieredTime.__add__)
Apply(t, iv) == [i \in 1..Len(iv.t) |-> IF i <= iv.c THEN t[i] + iv.t[i] ELSE iv.t[i]]

\* delay of "first a, then b"                           (TieredInterval.__add__)
Compose(a, b) ==
  LET cc == IF a.c <= b.c THEN a.c ELSE b.c
      n  == Len(b.t)
  IN [t |-> [i \in 1..n |->
               IF i <= cc THEN a.t[i] + b.t[i]
               ELSE IF a.c >= b.c THEN b.t[i]
               ELSE IF i <= b.c THEN (IF i <= Len(a.t) THEN a.t[i] ELSE 0) + b.t[i]
               ELSE b.t[i]],
      c |-> cc, p |-> a.p]

IsZeroIv(iv) == \A i \in 1..Len(iv.t) : iv.t[i] = 0

IMax(S) == CHOOSE m \in S : \A x \in S : x <= m
IMin(S) == CHOOSE m \in S : \A x \in S : m <= x
=============================================================================

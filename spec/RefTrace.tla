------------------------------ MODULE RefTrace ------------------------------
(***************************************************************************)
(* (T) Trace specification, direction code -> spec.                        *)
(*                                                                         *)
(* Reads a batch of recorded executions of the REAL mosaik scheduler       *)
(* (JSON array of [id, scn, ev]) and folds the reference semantics         *)
(* MosaikRef!RefStep over every execution.  The search is linear (every    *)
(* state has exactly one successor), every clause of every property is     *)
(* evaluated at every event, and every execution gets a total verdict:     *)
(*   <<"V", tid, l, clause>>   clause violated at event l of trace tid     *)
(*   <<"D", tid, l, details>>  details of the first violation of a trace   *)
(*   <<"T", tid, n, nv, dead>> trace tid fully consumed (n events), nv     *)
(*                             violations; dead = bookkeeping stopped      *)
(* A violation does not stop the batch.                                    *)
(***************************************************************************)
EXTENDS MosaikRef, Json, IOUtils

Batch == JsonDeserialize(IOEnv.TRACE_FILE)
NT == Len(Batch)

VARIABLES tid, l, h, nv
tvars == <<tid, l, h, nv>>

ToSet(q) == {q[j] : j \in 1..Len(q)}
Norm(e) == CASE e.k = "SB"  -> [e EXCEPT !.inp = ToSet(@)]
             [] e.k = "DE"  -> [e EXCEPT !.vals = ToSet(@)]
             [] e.k = "CB"  -> IF e.f \in {"set_data", "get_data"} THEN [e EXCEPT !.arg = ToSet(@)]
                               ELSE IF e.f = "get_related_entities"
                                 THEN [e EXCEPT !.created = ToSet(@), !.rels = ToSet(@), !.q = ToSet(@), !.nodes = ToSet(@), !.edges = ToSet(@), !.rel = ToSet(@)]
                               ELSE e
             [] e.k = "END" -> [e EXCEPT !.names = ToSet(@)]
             [] e.k = "EG"  -> [e EXCEPT !.nodes = ToSet(@), !.edges = ToSet(@)]
             [] OTHER       -> e

Scn(n) == Batch[n].scn
NEv(n) == Len(Batch[n].ev)

TInit == tid = 1 /\ l = 1 /\ h = InitH(Scn(1)) /\ nv = 0

Consume ==
  /\ l <= NEv(tid)
  /\ LET r == RefStep(Scn(tid), h, Norm(Batch[tid].ev[l])) IN
       /\ h' = r.h
       /\ nv' = nv + Len(r.v)
       /\ \A j \in 1..Len(r.v) : PrintT(<<"V", tid, l, r.v[j].c>>)
       /\ (nv = 0 /\ Len(r.v) > 0) => PrintT(<<"D", tid, l, r.v[1].c, ToString(r.v[1].d)>>)
  /\ l' = l + 1 /\ UNCHANGED tid

NextTrace ==
  /\ l = NEv(tid) + 1
  /\ PrintT(<<"T", tid, l - 1, nv, h.dead>>)
  /\ IF tid < NT
       THEN tid' = tid + 1 /\ l' = 1 /\ h' = InitH(Scn(tid + 1)) /\ nv' = 0
       ELSE l' = l + 1 /\ UNCHANGED <<tid, h, nv>>

TNext == Consume \/ NextTrace
TSpec == TInit /\ [][TNext]_tvars
=============================================================================

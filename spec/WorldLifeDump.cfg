SPECIFICATION Spec
CONSTANTS
  Sids = {"A", "B"}
  MaxGroups = 2
  MaxCalls = 100000
VIEW View
CHECK_DEADLOCK FALSE

SPECIFICATION MCSpec
CONSTANTS
  Owners <- MCOwners
  Times <- MCTimes
  Targets <- MCTimes
  Shifts <- MCShifts
  Ids <- MCIds
  EagerOnly = TRUE
INVARIANT NoLostWakeup
INVARIANT SoundResult
INVARIANT ExactlyOnce
INVARIANT CancelledAreParked
PROPERTY Monotone
CHECK_DEADLOCK FALSE

-------------------------------- MODULE Attrs --------------------------------
(***************************************************************************)
(* (R) for C12: classification of a model's attributes from its            *)
(* description and the simulator type.                                     *)
(*                                                                         *)
(* Sets of attribute names are finite or co-finite (any_inputs).  They are *)
(* represented EXTENSIONALLY over the witness universe W = U \cup {"z"},   *)
(* where "z" stands for "any attribute not mentioned anywhere" - a         *)
(* co-finite set is one that contains z.                                   *)
(*                                                                         *)
(* DECLARATIVE rule (deliberately not the procedure of the code): a        *)
(* classification is a pair of partitions                                  *)
(*      inputs  = non-trigger (+) trigger                                  *)
(*      outputs = persistent  (+) non-persistent                           *)
(* that agrees with every explicitly given list, with `attrs` (or "every   *)
(* name" for any_inputs) and with the defaults of the type:                *)
(*   time-based : no trigger inputs, no non-persistent outputs             *)
(*   event-based: no non-trigger inputs, no persistent outputs             *)
(*   hybrid     : without `trigger` and `non-trigger` all inputs are       *)
(*                non-trigger; without `non-persistent` all outputs are    *)
(*                persistent                                               *)
(* The description is ACCEPTED iff exactly one classification exists       *)
(* (none = inconsistent or forbidden kind, several = under-specified).     *)
(*                                                                         *)
(* Rows: [type, any, has (which keys are present), attrs, tr, nt, ps, np   *)
(* (sequences of names), ok, rnt, rtr, rps, rnp (sequences over W)]        *)
(* Second table (algebra): [x, y, op, r] with sets as [co, s].             *)
(***************************************************************************)
EXTENDS Naturals, Sequences, FiniteSets, TLC, Json, IOUtils

Tab == JsonDeserialize(IOEnv.TRACE_FILE)
U == {Tab.universe[i] : i \in 1..Len(Tab.universe)}
W == U \cup {"z"}
Rows == Tab.rows
NR == Len(Rows)
Chunk == 1000
Chunks == (NR + Chunk - 1) \div Chunk

\* r.has.<key> tells whether the key is present in the description (then r.<key> is its list)
SetOf(q) == {q[i] : i \in 1..Len(q)}

InCands(r) ==       \* candidate (non-trigger, trigger) partitions of the inputs
  LET hasInputs == r.any \/ r.has.attrs
      inputs == IF r.any THEN W ELSE SetOf(r.attrs) IN
  {p \in (SUBSET W) \X (SUBSET W) :
     LET nt == p[1]  tr == p[2] IN
     /\ nt \cap tr = {}
     /\ hasInputs => nt \cup tr = inputs
     /\ r.has.nt => nt = SetOf(r.nt)
     /\ r.has.tr => tr = SetOf(r.tr)
     /\ r.type = "time-based"  => tr = {}
     /\ r.type = "event-based" => nt = {}
     /\ (r.type = "hybrid" /\ ~r.has.nt /\ ~r.has.tr) => tr = {}}

OutCands(r) ==      \* candidate (persistent, non-persistent) partitions of the outputs
  {p \in (SUBSET W) \X (SUBSET W) :
     LET ps == p[1]  np == p[2] IN
     /\ ps \cap np = {}
     /\ r.has.attrs => ps \cup np = SetOf(r.attrs)
     /\ r.has.ps => ps = SetOf(r.ps)
     /\ r.has.np => np = SetOf(r.np)
     /\ r.type = "time-based"  => np = {}
     /\ r.type = "event-based" => ps = {}
     /\ (r.type = "hybrid" /\ ~r.has.np) => np = {}}

RowViol(n) ==
  LET r == Rows[n]  ic == InCands(r)  oc == OutCands(r)
      accept == Cardinality(ic) = 1 /\ Cardinality(oc) = 1
      i1 == CHOOSE p \in ic : TRUE
      o1 == CHOOSE p \in oc : TRUE
  IN (IF accept /\ ~r.ok THEN {"C12_consistent_description_rejected"} ELSE {})
     \cup (IF ~accept /\ r.ok THEN {"C12_inconsistent_or_underspecified_description_accepted"} ELSE {})
     \cup (IF accept /\ r.ok /\ (SetOf(r.rnt) # i1[1] \/ SetOf(r.rtr) # i1[2]) THEN {"C12_inputs_misclassified"} ELSE {})
     \cup (IF accept /\ r.ok /\ (SetOf(r.rps) # o1[1] \/ SetOf(r.rnp) # o1[2]) THEN {"C12_outputs_misclassified"} ELSE {})
     \cup (IF r.ok /\ (SetOf(r.rnt) \cap SetOf(r.rtr) # {} \/ SetOf(r.rps) \cap SetOf(r.rnp) # {}) THEN {"C12_not_a_partition"} ELSE {})

\* the co-finite set algebra, extensionally
Ext(x) == IF x.co THEN W \ SetOf(x.s) ELSE SetOf(x.s)
AlgViol(n) ==
  LET r == Tab.algebra[n]  X == Ext(r.x)  Y == Ext(r.y)
      expect == CASE r.op = "or" -> X \cup Y [] r.op = "and" -> X \cap Y [] r.op = "sub" -> X \ Y
                  [] r.op = "eq" -> IF X = Y THEN {"T"} ELSE {} [] r.op = "in" -> {} [] OTHER -> {}
      got == IF r.op = "eq" THEN (IF r.b THEN {"T"} ELSE {}) ELSE Ext(r.r)
  IN IF r.op = "in" THEN (IF r.b = (r.e \in X) THEN {} ELSE {"C12_set_membership_wrong"})
     ELSE IF ~r.ok \/ got # expect THEN {"C12_set_algebra_wrong"} ELSE {}

PhaseViol(k) ==
  IF k <= Chunks THEN UNION {{<<c, n>> : c \in RowViol(n)} : n \in ((k - 1) * Chunk + 1)..(IF k * Chunk < NR THEN k * Chunk ELSE NR)}
  ELSE UNION {{<<c, n>> : c \in AlgViol(n)} : n \in 1..Len(Tab.algebra)}

VARIABLE k
Init == k = 1
Next == k <= Chunks + 1 /\ PrintT(<<"R12", k, Chunks + 1, PhaseViol(k)>>) /\ k' = k + 1
Spec == Init /\ [][Next]_k
=============================================================================

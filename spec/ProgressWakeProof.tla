------------------------- MODULE ProgressWakeProof -------------------------
(***************************************************************************)
(* TLAPS proof that NoLostWakeup (with the domain part of the type         *)
(* invariant) is an INDUCTIVE invariant of ProgressWake - for every set of *)
(* owners, tiered times of any length, any delays and any number of        *)
(* callers (TLC checks the same for small constants only).                 *)
(* Checked with:  tlapm ProgressWakeProof.tla                              *)
(***************************************************************************)
EXTENDS ProgressWake, TLAPS

ASSUME NotEager == EagerOnly = FALSE

Dom == DOMAIN parked = Owners /\ DOMAIN time = Owners
Inv == Dom /\ NoLostWakeup

THEOREM InitInv == \A T0 : (DOMAIN T0 = Owners /\ WInit(T0)) => Inv
  BY DEF WInit, Inv, Dom, NoLostWakeup

LEMMA FiredAll == \A P, t : Fired(P, t) = {w \in P : Cond(w, t)}
  BY NotEager DEF Fired

THEOREM StepInv == Inv /\ [WNext]_wvars => Inv'
<1> SUFFICES ASSUME Inv, [WNext]_wvars PROVE Inv'
  OBVIOUS
<1>1. CASE UNCHANGED wvars
  BY <1>1 DEF Inv, Dom, NoLostWakeup, wvars
<1>2. ASSUME NEW o \in Owners, NEW i \in Ids, NEW tg \in Targets, NEW sh \in Shifts, NEW ps \in BOOLEAN, Add(o, i, tg, sh, ps)
      PROVE Inv'
  <2> DEFINE w == Call(i, tg, sh, ps)
  <2>1. time' = time
    BY <1>2 DEF Add
  <2>2. CASE Cond(w, time[o])
    <3>1. parked' = parked
      BY <1>2, <2>2 DEF Add
    <3> QED BY <2>1, <3>1 DEF Inv, Dom, NoLostWakeup
  <2>3. CASE ~Cond(w, time[o])
    <3>1. parked' = [parked EXCEPT ![o] = @ \cup {w}]
      BY <1>2, <2>3 DEF Add
    <3>2. DOMAIN parked' = Owners
      BY <3>1 DEF Inv, Dom
    <3>3. \A o2 \in Owners : \A x \in parked'[o2] : ~Cond(x, time'[o2])
      BY <2>1, <2>3, <3>1 DEF Inv, Dom, NoLostWakeup
    <3> QED BY <2>1, <3>2, <3>3 DEF Inv, Dom, NoLostWakeup
  <2> QED BY <2>2, <2>3
<1>3. ASSUME NEW o \in Owners, NEW t \in Times, Set(o, t)
      PROVE Inv'
  <2> DEFINE e == SetEff(parked[o], cancelled[o], t)
  <2>1. time' = [time EXCEPT ![o] = t] /\ parked' = [parked EXCEPT ![o] = e.left]
    BY <1>3 DEF Set, SetWith
  <2>2. e.left = {x \in parked[o] : ~Cond(x, t)}
    BY FiredAll DEF SetEff
  <2>3. DOMAIN parked' = Owners /\ DOMAIN time' = Owners
    BY <2>1 DEF Inv, Dom
  <2>4. \A o2 \in Owners : \A x \in parked'[o2] : ~Cond(x, time'[o2])
    BY <2>1, <2>2 DEF Inv, Dom, NoLostWakeup
  <2> QED BY <2>3, <2>4 DEF Inv, Dom, NoLostWakeup
<1>4. ASSUME NEW o \in Owners, NEW t \in Times, SetBack(o, t)
      PROVE Inv'
  BY <1>4 DEF SetBack, Inv, Dom, NoLostWakeup
<1>5. ASSUME NEW o \in Owners, NEW i \in Ids, Cancel(o, i)
      PROVE Inv'
  BY <1>5 DEF Cancel, Inv, Dom, NoLostWakeup
<1> QED BY <1>1, <1>2, <1>3, <1>4, <1>5 DEF WNext

(* The value a caller gets satisfies the relation it asked for (has_reached: target <= value, has_passed: target < value). *)
Rel(r) == IF r.w.ps THEN TLess(r.w.tg, r.v) ELSE TLeq(r.w.tg, r.v)
SoundRel == \A r \in resolved : Rel(r)

THEOREM InitSound == \A T0 : WInit(T0) => SoundRel
  BY DEF WInit, SoundRel

THEOREM StepSound == SoundRel /\ [WNext]_wvars => SoundRel'
<1> SUFFICES ASSUME SoundRel, [WNext]_wvars PROVE SoundRel'
  OBVIOUS
<1>1. CASE UNCHANGED wvars
  BY <1>1 DEF SoundRel, wvars
<1>2. ASSUME NEW o \in Owners, NEW i \in Ids, NEW tg \in Targets, NEW sh \in Shifts, NEW ps \in BOOLEAN, Add(o, i, tg, sh, ps)
      PROVE SoundRel'
  <2> DEFINE w == Call(i, tg, sh, ps)
  <2> DEFINE nr == [id |-> i, v |-> Arr(time[o], w), w |-> w]
  <2>1. CASE Cond(w, time[o])
    <3>1. resolved' = resolved \cup {nr}
      BY <1>2, <2>1 DEF Add
    <3>2. Rel(nr)
      BY <2>1 DEF Rel, Cond, Call
    <3> QED BY <3>1, <3>2 DEF SoundRel
  <2>2. CASE ~Cond(w, time[o])
    <3>1. resolved' = resolved
      BY <1>2, <2>2 DEF Add
    <3> QED BY <3>1 DEF SoundRel
  <2> QED BY <2>1, <2>2
<1>3. ASSUME NEW o \in Owners, NEW t \in Times, Set(o, t)
      PROVE SoundRel'
  <2> DEFINE e == SetEff(parked[o], cancelled[o], t)
  <2>1. resolved' = resolved \cup e.res
    BY <1>3 DEF Set, SetWith
  <2>2. \A r \in e.res : \E x \in parked[o] : Cond(x, t) /\ r = [id |-> x.id, v |-> Arr(t, x), w |-> x]
    BY FiredAll DEF SetEff
  <2>3. \A r \in e.res : Rel(r)
    BY <2>2 DEF Rel, Cond
  <2> QED BY <2>1, <2>3 DEF SoundRel
<1>4. ASSUME NEW o \in Owners, NEW t \in Times, SetBack(o, t)
      PROVE SoundRel'
  BY <1>4 DEF SetBack, SoundRel
<1>5. ASSUME NEW o \in Owners, NEW i \in Ids, Cancel(o, i)
      PROVE SoundRel'
  BY <1>5 DEF Cancel, SoundRel
<1> QED BY <1>1, <1>2, <1>3, <1>4, <1>5 DEF WNext
=============================================================================

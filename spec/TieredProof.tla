---------------------------- MODULE TieredProof ----------------------------
(***************************************************************************)
(* TLAPS proof of the C08 clause "combining delays along a path agrees     *)
(* with applying them one after the other" for the SPECIFICATION's delay   *)
(* arithmetic (Tiered.tla: Apply, Compose) - for tiered times and delays   *)
(* of every length, cutoff and pre-length and ALL integer tier values      *)
(* (TLC / the TieredOrder table check it for bounded values only, and bind *)
(* Compose / Apply to mosaik's TieredInterval.__add__ / TieredTime.__add__ *)
(* on the same bounded range).                                             *)
(* Checked with:  tlapm TieredProof.tla                                    *)
(***************************************************************************)
EXTENDS Tiered, TLAPS

\* a tiered time of length n / a delay from depth p to depth n with cutoff c
IsTime(t, n) == t \in [1..n -> Int]
IsIv(iv, p, n) == /\ iv.t \in [1..n -> Int] /\ Len(iv.t) = n
                  /\ iv.c \in 1..n /\ iv.c <= p /\ iv.p = p /\ p \in Nat /\ n \in Nat

THEOREM ComposeIsSequentialApply ==
  ASSUME NEW p \in Nat, NEW m \in Nat, NEW n \in Nat,
         NEW t, IsTime(t, p),
         NEW a, IsIv(a, p, m),
         NEW b, IsIv(b, m, n)
  PROVE  Apply(Apply(t, a), b) = Apply(t, Compose(a, b))
<1> DEFINE ta == Apply(t, a)
<1> DEFINE ab == Compose(a, b)
<1>1. Len(a.t) = m /\ Len(b.t) = n
  BY DEF IsIv
<1>2. ta = [i \in 1..m |-> IF i <= a.c THEN t[i] + a.t[i] ELSE a.t[i]]
  BY <1>1 DEF Apply
<1>3. Apply(ta, b) = [i \in 1..n |-> IF i <= b.c THEN ta[i] + b.t[i] ELSE b.t[i]]
  BY <1>1 DEF Apply
<1> DEFINE cc == IF a.c <= b.c THEN a.c ELSE b.c
<1>4. ab.c = cc /\ ab.t = [i \in 1..n |->
               IF i <= cc THEN a.t[i] + b.t[i]
               ELSE IF a.c >= b.c THEN b.t[i]
               ELSE IF i <= b.c THEN (IF i <= Len(a.t) THEN a.t[i] ELSE 0) + b.t[i]
               ELSE b.t[i]]
  BY <1>1 DEF Compose
<1>5. Len(ab.t) = n
  BY <1>4
<1>6. Apply(t, ab) = [i \in 1..n |-> IF i <= ab.c THEN t[i] + ab.t[i] ELSE ab.t[i]]
  BY <1>5 DEF Apply
<1>7. ASSUME NEW i \in 1..n
      PROVE (IF i <= b.c THEN ta[i] + b.t[i] ELSE b.t[i]) = (IF i <= ab.c THEN t[i] + ab.t[i] ELSE ab.t[i])
  <2>1. a.c \in 1..m /\ b.c \in 1..n /\ b.c <= m /\ a.c <= p
    BY DEF IsIv
  <2>2. b.t[i] \in Int
    BY DEF IsIv
  <2>3. CASE i <= b.c
    <3>1. i \in 1..m
      BY <2>1, <2>3
    <3>2. a.t[i] \in Int
      BY <3>1 DEF IsIv
    <3>3. ta[i] = IF i <= a.c THEN t[i] + a.t[i] ELSE a.t[i]
      BY <1>2, <3>1
    <3>4. CASE i <= a.c
      <4>1. i \in 1..p
        BY <2>1, <3>4
      <4>2. t[i] \in Int
        BY <4>1 DEF IsTime
      <4>3. i <= cc
        BY <2>3, <3>4
      <4>4. ab.t[i] = a.t[i] + b.t[i]
        BY <1>4, <4>3
      <4> QED BY <1>4, <2>2, <2>3, <3>2, <3>3, <3>4, <4>2, <4>3, <4>4
    <3>5. CASE ~(i <= a.c)
      <4>1. cc = a.c /\ ~(i <= cc) /\ ~(a.c >= b.c)
        BY <2>1, <2>3, <3>5
      <4>2. ab.t[i] = a.t[i] + b.t[i]
        BY <1>1, <1>4, <3>1, <4>1, <2>3
      <4> QED BY <1>4, <2>3, <3>3, <3>5, <4>1, <4>2
    <3> QED BY <3>4, <3>5
  <2>4. CASE ~(i <= b.c)
    <3>1. ~(i <= cc)
      BY <2>1, <2>4
    <3>2. ab.t[i] = b.t[i]
      BY <1>4, <2>4, <3>1
    <3> QED BY <1>4, <2>4, <3>1, <3>2
  <2> QED BY <2>3, <2>4
<1> QED BY <1>3, <1>6, <1>7

(* Combining delays along a path is associative.                           *)
THEOREM ComposeAssociative ==
  ASSUME NEW p \in Nat, NEW m \in Nat, NEW n \in Nat, NEW q \in Nat,
         NEW a, IsIv(a, p, m),
         NEW b, IsIv(b, m, n),
         NEW c, IsIv(c, n, q)
  PROVE  Compose(Compose(a, b), c) = Compose(a, Compose(b, c))
<1> DEFINE ab == Compose(a, b)
<1> DEFINE bc == Compose(b, c)
<1> DEFINE cab == IF a.c <= b.c THEN a.c ELSE b.c
<1> DEFINE cbc == IF b.c <= c.c THEN b.c ELSE c.c
<1>1. Len(a.t) = m /\ Len(b.t) = n /\ Len(c.t) = q
  BY DEF IsIv
<1>2. a.c \in 1..m /\ b.c \in 1..n /\ c.c \in 1..q /\ a.c <= p /\ b.c <= m /\ c.c <= n
  BY DEF IsIv
<1>3. ab = [t |-> [i \in 1..n |->
                 IF i <= cab THEN a.t[i] + b.t[i]
                 ELSE IF a.c >= b.c THEN b.t[i]
                 ELSE IF i <= b.c THEN (IF i <= m THEN a.t[i] ELSE 0) + b.t[i]
                 ELSE b.t[i]], c |-> cab, p |-> a.p]
  BY <1>1 DEF Compose
<1>4. bc = [t |-> [i \in 1..q |->
                 IF i <= cbc THEN b.t[i] + c.t[i]
                 ELSE IF b.c >= c.c THEN c.t[i]
                 ELSE IF i <= c.c THEN (IF i <= n THEN b.t[i] ELSE 0) + c.t[i]
                 ELSE c.t[i]], c |-> cbc, p |-> b.p]
  BY <1>1 DEF Compose
<1>5. Len(ab.t) = n /\ Len(bc.t) = q /\ ab.c = cab /\ bc.c = cbc /\ ab.p = a.p
  BY <1>3, <1>4
<1> DEFINE cl == IF ab.c <= c.c THEN ab.c ELSE c.c
<1> DEFINE cr == IF a.c <= bc.c THEN a.c ELSE bc.c
<1>6. cl = cr
  BY <1>2, <1>5
<1> DEFINE L(i) == IF i <= cl THEN ab.t[i] + c.t[i]
                   ELSE IF ab.c >= c.c THEN c.t[i]
                   ELSE IF i <= c.c THEN (IF i <= Len(ab.t) THEN ab.t[i] ELSE 0) + c.t[i]
                   ELSE c.t[i]
<1> DEFINE R(i) == IF i <= cr THEN a.t[i] + bc.t[i]
                   ELSE IF a.c >= bc.c THEN bc.t[i]
                   ELSE IF i <= bc.c THEN (IF i <= Len(a.t) THEN a.t[i] ELSE 0) + bc.t[i]
                   ELSE bc.t[i]
<1>7. Compose(ab, c) = [t |-> [i \in 1..q |-> L(i)], c |-> cl, p |-> ab.p]
  BY <1>1 DEF Compose
<1>8. Compose(a, bc) = [t |-> [i \in 1..q |-> R(i)], c |-> cr, p |-> a.p]
  BY <1>5 DEF Compose
<1>9. ASSUME NEW i \in 1..q PROVE L(i) = R(i)
  <2>1. c.t[i] \in Int
    BY DEF IsIv
  <2>2. i <= n => b.t[i] \in Int
    BY DEF IsIv
  <2>3. i <= m => a.t[i] \in Int
    BY DEF IsIv
  <2>4. i <= n => ab.t[i] = (IF i <= cab THEN a.t[i] + b.t[i]
                 ELSE IF a.c >= b.c THEN b.t[i]
                 ELSE IF i <= b.c THEN (IF i <= m THEN a.t[i] ELSE 0) + b.t[i]
                 ELSE b.t[i])
    BY <1>3
  <2>5. bc.t[i] = (IF i <= cbc THEN b.t[i] + c.t[i]
                 ELSE IF b.c >= c.c THEN c.t[i]
                 ELSE IF i <= c.c THEN (IF i <= n THEN b.t[i] ELSE 0) + c.t[i]
                 ELSE c.t[i])
    BY <1>4
  <2> QED BY <1>1, <1>2, <1>5, <1>6, <2>1, <2>2, <2>3, <2>4, <2>5
<1> QED BY <1>5, <1>6, <1>7, <1>8, <1>9

=============================================================================

----------------------------- MODULE WorldLife -----------------------------
(***************************************************************************)
(* (S) The life cycle of a mosaik World as the scenario script sees it:    *)
(* start / group / connect / run / shutdown in ANY order, each public call *)
(* one action with its outcome.  (mosaik/scenario.py: World.start,         *)
(* World.group, World.connect, World.run, World.shutdown.)                 *)
(*                                                                         *)
(*   Start(s)     ScenarioError for an id that is taken; RuntimeError once *)
(*                the event loop is closed; otherwise the simulator joins  *)
(*                the group that is current at that moment                 *)
(*   Enter, Exit  `with world.group():` - a stack; leaving a block (also   *)
(*                by an exception) restores the group current before it    *)
(*   Connect(a,b) a plain triggering connection (always accepted, in every *)
(*                phase - mosaik has no guard against connecting late)     *)
(*   Run          RuntimeError if a run was already performed; else        *)
(*                ScenarioError for an unresolved cycle - and then NOTHING *)
(*                has happened: no simulator stopped, loop open, the run   *)
(*                can be repeated; else RuntimeError on a closed loop;     *)
(*                else the run is performed: every simulator is stopped    *)
(*                exactly once and the event loop closed                   *)
(*   Shutdown     stops every simulator and closes the loop; a no-op on a  *)
(*                closed loop (so never a second stop)                     *)
(*                                                                         *)
(* Invariants: no simulator is ever stopped twice, whatever the order of   *)
(* calls; closed loop <=> every started simulator stopped exactly once;    *)
(* a performed run implies a closed loop; at most one run is performed.    *)
(* Bound to the code in both directions by WorldLifeTrace.tla.             *)
(***************************************************************************)
EXTENDS Naturals, Sequences, FiniteSets, TLC

CONSTANTS Sids, MaxGroups, MaxCalls

VARIABLES started, gp, stack, ng, closed, ran, stops, conns, res, ncalls
vars == <<started, gp, stack, ng, closed, ran, stops, conns, res, ncalls>>

Init ==
  /\ started = {} /\ gp = [s \in Sids |-> <<>>] /\ stack = <<>> /\ ng = 1
  /\ closed = FALSE /\ ran = FALSE /\ stops = [s \in Sids |-> 0] /\ conns = {} /\ res = "ok" /\ ncalls = 0

Call == ncalls < MaxCalls /\ ncalls' = ncalls + 1

\* an unresolved cycle of plain connections (self-connections included)
\* (a closed walk along the connections; at most one visit per simulator is needed, so walks of bounded length suffice)
Walks == UNION {[1..k -> Sids] : k \in 2..(Cardinality(Sids) + 1)}
Cyclic(C) == \E w \in Walks : w[1] = w[Len(w)] /\ \A i \in 1..(Len(w) - 1) : <<w[i], w[i + 1]>> \in C

Start(s) ==
  /\ Call
  /\ IF s \in started THEN res' = "ScenarioError" /\ UNCHANGED <<started, gp>>
     ELSE IF closed THEN res' = "RuntimeError" /\ UNCHANGED <<started, gp>>
     ELSE res' = "ok" /\ started' = started \cup {s} /\ gp' = [gp EXCEPT ![s] = stack]
  /\ UNCHANGED <<stack, ng, closed, ran, stops, conns>>

Enter ==
  /\ Call /\ ng <= MaxGroups
  /\ stack' = Append(stack, ng) /\ ng' = ng + 1 /\ res' = "ok"
  /\ UNCHANGED <<started, gp, closed, ran, stops, conns>>

Exit ==
  /\ Call /\ stack # <<>>
  /\ stack' = SubSeq(stack, 1, Len(stack) - 1) /\ res' = "ok"
  /\ UNCHANGED <<started, gp, ng, closed, ran, stops, conns>>

Connect(a, b) ==
  /\ Call /\ a \in started /\ b \in started /\ <<a, b>> \notin conns
  /\ conns' = conns \cup {<<a, b>>} /\ res' = "ok"
  /\ UNCHANGED <<started, gp, stack, ng, closed, ran, stops>>

StopAll == stops' = [s \in Sids |-> IF s \in started THEN stops[s] + 1 ELSE stops[s]]

Run ==
  /\ Call
  /\ IF ran THEN res' = "RuntimeError" /\ UNCHANGED <<closed, ran, stops>>
     ELSE IF Cyclic(conns) THEN res' = "ScenarioError" /\ UNCHANGED <<closed, ran, stops>>
     ELSE IF closed THEN res' = "RuntimeError" /\ UNCHANGED <<closed, ran, stops>>
     ELSE res' = "ok" /\ ran' = TRUE /\ closed' = TRUE /\ StopAll
  /\ UNCHANGED <<started, gp, stack, ng, conns>>

Shutdown ==
  /\ Call /\ res' = "ok"
  /\ IF closed THEN UNCHANGED <<closed, stops>> ELSE closed' = TRUE /\ StopAll
  /\ UNCHANGED <<started, gp, stack, ng, ran, conns>>

Next == (\E s \in Sids : Start(s)) \/ Enter \/ Exit \/ (\E a, b \in Sids : Connect(a, b)) \/ Run \/ Shutdown
Spec == Init /\ [][Next]_vars
\* (the call counter only bounds the exhaustive configuration; the graph that is dumped for the replay leaves it out)
View == <<started, gp, stack, ng, closed, ran, stops, conns, res>>

----------------------------------------------------------------------------
NoDoubleStop     == \A s \in Sids : stops[s] <= 1
StopOnlyStarted  == \A s \in Sids : stops[s] > 0 => s \in started
ClosedIffStopped == closed <=> (\A s \in started : stops[s] = 1) /\ (started = {} => (closed \in BOOLEAN))
ClosedStopsAll   == closed => \A s \in started : stops[s] = 1
OpenStopsNone    == ~closed => \A s \in Sids : stops[s] = 0
RanImpliesClosed == ran => closed
GroupOfStarted   == \A s \in started : \A i \in 1..Len(gp[s]) : gp[s][i] < ng
\* action properties: a performed run, a closed loop and a started simulator stay what they are; the group stack is only
\* changed by Enter / Exit; a refused call changes nothing but the outcome
Monotone == [][(ran => ran') /\ (closed => closed') /\ (started \subseteq started') /\ (\A s \in started : gp'[s] = gp[s])]_vars
RefusedChangesNothing == [][res' # "ok" => UNCHANGED <<started, gp, stack, ng, closed, ran, stops, conns>>]_vars
AtMostOneRun == [][(ran' /\ ~ran) => ~closed]_vars
=============================================================================

---------------------------- MODULE ProgressTrace ----------------------------
(***************************************************************************)
(* (T) code -> spec for the wake-up layer: every call of Progress.set and  *)
(* Progress._add_trigger recorded in a real execution (out-of-tree         *)
(* wrappers, harness/wake.py) must be the action of ProgressWake with the  *)
(* logged arguments AND the logged outcome:                                *)
(*   Add   returned at once  <=>  the condition held already; its value    *)
(*   Set   exactly the logged calls left Progress._futures, exactly the    *)
(*         logged ones (not cancelled) got a result, with the logged value *)
(*   Ret   a parked call resumed with the value it was resolved with       *)
(* The invariants of ProgressWake are evaluated in every state reached.    *)
(* A batch holds many executions; verdict lines (never a property verdict, *)
(* a rejection is DRIFT between progress.py and this specification):       *)
(*   <<"PW", tid, "accepted", n>>                                          *)
(*   <<"PW", tid, "rejected", l, action, owner, why>>                      *)
(***************************************************************************)
EXTENDS ProgressWake, Json, IOUtils, Sequences

TBatch == JsonDeserialize(IOEnv.TRACE_FILE)
TN == Len(TBatch)
TOwners == UNION {DOMAIN TBatch[i].init : i \in 1..TN}   \* (cfg: Owners <- TOwners; the other constants of ProgressWake are unused here)

VARIABLES tid, l
tvars == <<wvars, tid, l>>

TEv == TBatch[tid].ev[l]
SeqSet(q) == {q[j] : j \in 1..Len(q)}
Iv(x) == [t |-> x.t, c |-> x.c, p |-> x.p]

\* what the specification says about the recorded event, as a set of complaints (empty = conforms)
AddWhy ==
  LET w == Call(TEv.id, TEv.tg, Iv(TEv.sh), TEv.ps)  o == TEv.o IN
  (IF Cond(w, time[o]) # TEv.imm THEN {IF TEv.imm THEN "returned at once although the condition did not hold" ELSE "parked although the condition held"} ELSE {})
  \cup (IF TEv.imm /\ TEv.v # Arr(time[o], w) THEN {"returned a value other than time + shift"} ELSE {})
SetWhy ==
  LET o == TEv.o  e == SetEff(parked[o], SeqSet(TEv.cancelled), TEv.t) IN
  IF TEv.back THEN (IF TLess(TEv.t, time[o]) THEN {} ELSE {"a set() that does not go backwards was refused"})
  ELSE (IF TLeq(time[o], TEv.t) THEN {} ELSE {"progress moved backwards"})
       \cup (IF {w.id : w \in e.left} # SeqSet(TEv.left)
               THEN {IF \E w \in e.left : w.id \notin SeqSet(TEv.left) THEN "a call whose condition does not hold left the waiting list"
                     ELSE "a call whose condition holds stayed parked (lost wake-up)"} ELSE {})
       \cup (IF {<<r.id, r.v>> : r \in e.res} # {<<f[1], f[2]>> : f \in SeqSet(TEv.fired)} THEN {"the resolved calls or their values differ"} ELSE {})
RetWhy == IF \E r \in resolved : r.id = TEv.id /\ r.v = TEv.v THEN {} ELSE {"a waiting call resumed without / with another result"}
Why == CASE TEv.a = "Add" -> AddWhy [] TEv.a = "Set" -> SetWhy [] TEv.a = "Ret" -> RetWhy [] OTHER -> {"unknown event"}

SoundResultT == \A r \in resolved : IF r.w.ps THEN TLess(r.w.tg, r.v) ELSE TLeq(r.w.tg, r.v)
InvOk == NoLostWakeup /\ SoundResultT /\ ExactlyOnce

TStep ==
  /\ l <= Len(TBatch[tid].ev) /\ Why = {} /\ InvOk
  /\ \/ TEv.a = "Add" /\ Add(TEv.o, TEv.id, TEv.tg, Iv(TEv.sh), TEv.ps)
     \/ TEv.a = "Set" /\ ~TEv.back /\ SetWith(TEv.o, TEv.t, SeqSet(TEv.cancelled))
     \/ TEv.a = "Set" /\ TEv.back /\ SetBack(TEv.o, TEv.t)
     \/ TEv.a = "Ret" /\ UNCHANGED wvars
  /\ l' = l + 1 /\ tid' = tid

ResetTo(n) ==
  /\ time' = TBatch[n].init
  /\ parked' = [o \in Owners |-> {}]
  /\ cancelled' = [o \in Owners |-> {}]
  /\ resolved' = {}
  /\ refused' = FALSE
  /\ tid' = n /\ l' = 1

Finished == l = Len(TBatch[tid].ev) + 1
TAccept ==
  /\ Finished /\ InvOk
  /\ PrintT(<<"PW", tid, "accepted", l - 1>>)
  /\ IF tid < TN THEN ResetTo(tid + 1) ELSE (l' = l + 1 /\ UNCHANGED <<wvars, tid>>)
TReject ==
  /\ l <= Len(TBatch[tid].ev) + 1 /\ (~Finished \/ ~InvOk) /\ (Finished \/ Why # {} \/ ~InvOk)
  /\ PrintT(<<"PW", tid, "rejected", l, IF Finished THEN "END" ELSE TEv.a, IF Finished THEN "" ELSE TEv.o,
              IF ~InvOk THEN {"an invariant of ProgressWake fails in the state reached"} ELSE Why>>)
  /\ IF tid < TN THEN ResetTo(tid + 1) ELSE (l' = Len(TBatch[tid].ev) + 3 /\ UNCHANGED <<wvars, tid>>)

TNext == TStep \/ TAccept \/ TReject
TInit == /\ time = TBatch[1].init /\ parked = [o \in Owners |-> {}] /\ cancelled = [o \in Owners |-> {}]
         /\ resolved = {} /\ refused = FALSE /\ tid = 1 /\ l = 1
TSpec == TInit /\ [][TNext]_tvars
=============================================================================

------------------------------ MODULE Adapters ------------------------------
(***************************************************************************)
(* (R) for C15: what a simulator that announces API version v must         *)
(* receive, and which simulators are rejected at start.                    *)
(*                                                                         *)
(* Versions are sequences of naturals compared lexicographically (a proper *)
(* prefix is smaller: <<2>> < <<2, 2>>); a missing api_version is <<1>>.   *)
(*   reject  iff  v >= <<4>>                                               *)
(*            or  an explicit api_version is configured and differs from v *)
(*            or  the simulator is in-process, lacks the v3 signatures     *)
(*                (init without time_resolution / step without             *)
(*                max_advance) and claims v >= <<3>>                       *)
(*            or  v >= <<3>> and the meta has no "type"                    *)
(*   else    step() gets max_advance      iff v >= <<3>>                   *)
(*           setup_done() is sent         iff v >= <<2, 2>>                *)
(*           init() gets time_resolution  iff remote or v3 signatures      *)
(*           a missing type is defaulted to "time-based" (v < <<3>>)       *)
(*           apart from that it sees the same scheduling and data as a     *)
(*           current-version simulator (sameobs)                           *)
(* Rows: [v, hasv, explicit in {"absent","equal","different"}, kind in     *)
(* {"remote","inproc_v3","inproc_old"}, hastype, out, init_tr, setup_done, *)
(* step_nargs, type_seen, warned, sameobs]                                 *)
(***************************************************************************)
EXTENDS Naturals, Sequences, FiniteSets, TLC, Json, IOUtils

Tab == JsonDeserialize(IOEnv.TRACE_FILE)
NR == Len(Tab)

VLess(a, b) == \/ \E i \in 1..Len(a) : i <= Len(b) /\ (\A j \in 1..(i - 1) : a[j] = b[j]) /\ a[i] < b[i]
               \/ (Len(a) < Len(b) /\ \A j \in 1..Len(a) : a[j] = b[j])
VGeq(a, b) == ~VLess(a, b)

Ver(r) == IF r.hasv THEN r.v ELSE <<1>>
\* in-process simulator whose OWN init / step lack the v3 parameters (whatever its base classes look like)
OldSigs(r) == r.kind \in {"inproc_old", "inproc_old_sub"}
Reject(r) ==
  \/ VGeq(Ver(r), <<4>>)
  \/ r.explicit = "different"
  \/ (OldSigs(r) /\ VGeq(Ver(r), <<3>>))
  \/ (VGeq(Ver(r), <<3>>) /\ ~r.hastype)

\* rows with an injected failure of the simulator's own step (r.fail # "none"): the run fails with that error, every
\* step request the simulator received is still valid for its version, and it received exactly the requests a
\* current-version simulator failing at the same call receives (no request repeated, none after the failure)
FailViol(r) ==
  LET v == Ver(r)  want == IF VGeq(v, <<3>>) THEN 3 ELSE 2 IN
  (IF ~r.failed_as_injected THEN {"C15_failure_of_the_simulator_not_reported_as_such"} ELSE {})
  \cup (IF \E i \in 1..Len(r.nargs_all) : r.nargs_all[i] # want THEN {"C15_max_advance_wrongly_passed_or_dropped"} ELSE {})
  \cup (IF ~r.sameobs THEN {"C15_sees_different_scheduling_or_data_than_current_version"} ELSE {})

RowViol(n) ==
  LET r == Tab[n]  v == Ver(r) IN
  IF r.fail # "none" /\ ~Reject(r) THEN FailViol(r)
  ELSE IF Reject(r) THEN
     (IF r.out = "ok" THEN {"C15_simulator_that_must_be_rejected_was_started"} ELSE {})
     \cup (IF r.out = "other" THEN {"C15_rejected_with_wrong_error"} ELSE {})
  ELSE
     (IF r.out # "ok" THEN {"C15_valid_simulator_rejected"} ELSE {})
     \cup (IF r.out = "ok" /\ (r.step_nargs = 3) # VGeq(v, <<3>>) THEN {"C15_max_advance_wrongly_passed_or_dropped"} ELSE {})
     \cup (IF r.out = "ok" /\ r.setup_done # VGeq(v, <<2, 2>>) THEN {"C15_setup_done_wrongly_sent_or_dropped"} ELSE {})
     \cup (IF r.out = "ok" /\ r.init_tr # ~OldSigs(r) THEN {"C15_time_resolution_wrongly_passed_or_dropped"} ELSE {})
     \cup (IF r.out = "ok" /\ ~r.hastype /\ r.type_seen # "time-based" THEN {"C15_missing_type_not_defaulted"} ELSE {})
     \* only a MISSING type is defaulted: a declared type is the simulator's type, whatever its version
     \cup (IF r.out = "ok" /\ r.hastype /\ r.type_seen # r.decl_type THEN {"C15_declared_type_not_respected"} ELSE {})
     \cup (IF r.out = "ok" /\ ~r.sameobs THEN {"C15_sees_different_scheduling_or_data_than_current_version"} ELSE {})
     \cup (IF ~r.extra_ok THEN {"C15_extra_method_call_lost_or_altered"} ELSE {})

VARIABLE k
Init == k = 1
Next == k <= 1 /\ PrintT(<<"R15", 1, 1, UNION {{<<c, n>> : c \in RowViol(n)} : n \in 1..NR}>>) /\ k' = k + 1
Spec == Init /\ [][Next]_k
=============================================================================

SPECIFICATION Spec
CONSTANTS
  Sims = {"Sa", "Sb"}
  K = 2
  Until = 2
  MaxDur = 2
  Events = TRUE
INVARIANT Pacing
INVARIANT EventsExecuted
INVARIANT KnownD19
PROPERTY Completes
CHECK_DEADLOCK TRUE

SPECIFICATION Spec
CONSTANTS
  Sims = {"Sa", "Sb", "Sc"}
  MaxReq = 3
  Kinds = {"eof_outstanding", "reset_outstanding", "remote_exception", "raise", "eof_idle"}
INVARIANT Clean
INVARIANT KnownD11
INVARIANT KnownD23
PROPERTY Prompt
CHECK_DEADLOCK TRUE

SPECIFICATION Spec
CONSTANTS
  K = 4
  Until = 4
  MaxEv = 3
  RefreshOnWake = TRUE
INVARIANT TypeOK
INVARIANT NoInternalError
INVARIANT Pacing
INVARIANT Prompt
INVARIANT NeverLate
INVARIANT EventsExecuted
PROPERTY Terminates
CHECK_DEADLOCK TRUE

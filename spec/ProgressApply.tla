---------------------------- MODULE ProgressApply ----------------------------
(***************************************************************************)
(* (T) for C08, where delays are APPLIED: the scheduler's waits            *)
(* (Progress.has_passed / has_reached, mosaik/progress.py) compare a       *)
(* target with  progress + delay.  Recorded: for every progress value t,   *)
(* every type-correct delay iv, every target tg and both kinds of wait,    *)
(* what Progress._triggered_time answers.  It must be the arrival time     *)
(* Apply(t, iv) of the specification when the wait is satisfied (passed:   *)
(* tg < arrival, reached: tg <= arrival) and nothing otherwise - the same  *)
(* delay is the same function wherever it is applied.                      *)
(* Rows: [t, iv = [t, c, p], tg, ps, res (arrival or <<>>)].               *)
(***************************************************************************)
EXTENDS Tiered, TLC, Json, IOUtils

Tab == JsonDeserialize(IOEnv.TRACE_FILE)
NR == Len(Tab)
Chunk == 4000
Chunks == (NR + Chunk - 1) \div Chunk

RowViol(n) ==
  LET r == Tab[n]  iv == [t |-> r.iv.t, c |-> r.iv.c, p |-> r.iv.p]  d == Apply(r.t, iv)
      sat == IF r.ps THEN TLess(r.tg, d) ELSE TLeq(r.tg, d)
  IN IF r.res = (IF sat THEN d ELSE <<>>) THEN {} ELSE {"C08_delay_applied_in_a_wait_differs_from_departure_plus_delay"}

VARIABLE k
Init == k = 1
Next == k <= Chunks /\ PrintT(<<"R08W", k, Chunks, UNION {{<<c, n>> : c \in RowViol(n)} :
                                  n \in ((k - 1) * Chunk + 1)..(IF k * Chunk < NR THEN k * Chunk ELSE NR)}>>) /\ k' = k + 1
Spec == Init /\ [][Next]_k
=============================================================================

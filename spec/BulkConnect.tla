---------------------------- MODULE BulkConnect ----------------------------
(***************************************************************************)
(* (R) for C18: mosaik.util.connect_randomly / connect_many_to_one as      *)
(* nondeterministic processes.                                             *)
(*                                                                         *)
(*   evenly:     sources are connected in rounds; within a round every     *)
(*               destination is used at most once (a freely chosen         *)
(*               permutation of the destinations per round)                *)
(*   not evenly: every source picks any destination that still has         *)
(*               capacity (fewer than max_connects connections)            *)
(* Invariants: every source is connected exactly once, in source order;    *)
(* evenly => the counts differ by at most one; not evenly => no count      *)
(* exceeds max_connects; the process never gets stuck before all sources   *)
(* are connected whenever |src| <= |dest| * max_connects; the returned set *)
(* is exactly the set of destinations with at least one connection.        *)
(*                                                                         *)
(* The same rules validate recorded runs of the real helpers (rows of the  *)
(* table): [ns, nd, evenly, maxc (0 = unlimited), calls (sequence of       *)
(* <<source, destination>> indices), ret (sequence of destinations),       *)
(* ok (no exception)].                                                     *)
(***************************************************************************)
EXTENDS Naturals, Sequences, FiniteSets, TLC

CONSTANTS NS, ND, Evenly, MaxC      \* MaxC = 0: unlimited

VARIABLES pos, cnt, used
vars == <<pos, cnt, used>>
Dests == 1..ND

Init == pos = 0 /\ cnt = [d \in Dests |-> 0] /\ used = {}

Allowed(d, c, u) == IF Evenly THEN d \notin u ELSE (MaxC = 0 \/ c[d] < MaxC)

Connect(d) ==
  /\ pos < NS
  /\ Allowed(d, cnt, used)
  /\ pos' = pos + 1
  /\ cnt' = [cnt EXCEPT ![d] = @ + 1]
  /\ used' = IF Evenly THEN (IF Cardinality(used) + 1 = ND THEN {} ELSE used \cup {d}) ELSE used

Done == pos = NS /\ UNCHANGED vars
Next == (\E d \in Dests : Connect(d)) \/ Done
Spec == Init /\ [][Next]_vars /\ WF_vars(Next)

Feasible == Evenly \/ MaxC = 0 \/ NS <= ND * MaxC
Sum == LET RECURSIVE S(_) S(n) == IF n = 0 THEN 0 ELSE cnt[n] + S(n - 1) IN S(ND)
EachSourceOnce == Sum = pos
Balanced == Evenly => \A a, b \in Dests : cnt[a] <= cnt[b] + 1
Capped == (~Evenly /\ MaxC # 0) => \A d \in Dests : cnt[d] <= MaxC
NeverStuck == (Feasible /\ pos < NS) => \E d \in Dests : Allowed(d, cnt, used)
Terminates == Feasible => <>(pos = NS)

=============================================================================

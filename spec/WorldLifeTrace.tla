--------------------------- MODULE WorldLifeTrace ---------------------------
(***************************************************************************)
(* (T) code -> spec for the World life cycle: every public call of a       *)
(* recorded script (harness/life.py: action, arguments, outcome, and the   *)
(* projection of the real World after the call - simulators started with   *)
(* their group paths, current group stack, loop closed, run performed,     *)
(* finalize() calls per simulator, connections made) must be the action of *)
(* WorldLife with those arguments, lead to exactly the logged state and    *)
(* outcome, and the invariants must hold in every state reached.  The      *)
(* scripts are the edge-covering walks of WorldLife's own state graph      *)
(* (spec -> code) plus seeded random ones.  Verdict lines (DRIFT, never a   *)
(* property verdict):  <<"WL", tid, "accepted", n>>                        *)
(*                     <<"WL", tid, "rejected", l, action, what differs>>  *)
(***************************************************************************)
EXTENDS WorldLife, Json, IOUtils

TBatch == JsonDeserialize(IOEnv.TRACE_FILE)
TN == Len(TBatch)
VARIABLES tid, l
tvars == <<vars, tid, l>>

TEv == TBatch[tid][l]
SeqSet(q) == {q[j] : j \in 1..Len(q)}
LoggedGp(e, s) == IF s \in DOMAIN e.gp THEN e.gp[s] ELSE <<>>

\* the specification's action for the logged call, as a predicate on the primed variables
Act(e) == CASE e.a = "Start" -> Start(e.s)
            [] e.a = "Enter" -> Enter
            [] e.a = "Exit"  -> Exit
            [] e.a = "Connect" -> Connect(e.s, e.d)
            [] e.a = "Run" -> Run
            [] e.a = "Shutdown" -> Shutdown
            [] OTHER -> FALSE
\* ... and what differs between the state the action leads to and the logged projection of the real World
Diff(e) ==
  (IF res' # e.res THEN {"outcome"} ELSE {})
  \cup (IF started' # SeqSet(e.started) THEN {"simulators started"} ELSE {})
  \cup (IF \E s \in started' : gp'[s] # LoggedGp(e, s) THEN {"group path of a simulator"} ELSE {})
  \cup (IF stack' # e.stack THEN {"current group"} ELSE {})
  \cup (IF closed' # e.closed THEN {"event loop closed"} ELSE {})
  \cup (IF ran' # e.ran THEN {"run performed"} ELSE {})
  \cup (IF \E s \in Sids : stops'[s] # (IF s \in DOMAIN e.stops THEN e.stops[s] ELSE 0) THEN {"finalize calls"} ELSE {})
  \cup (IF conns' # {<<c[1], c[2]>> : c \in SeqSet(e.conns)} THEN {"connections"} ELSE {})

InvOk == NoDoubleStop /\ StopOnlyStarted /\ ClosedStopsAll /\ OpenStopsNone /\ RanImpliesClosed

TStep ==
  /\ l <= Len(TBatch[tid]) /\ InvOk
  /\ Act(TEv) /\ Diff(TEv) = {}
  /\ l' = l + 1 /\ tid' = tid

ResetTo(n) ==
  /\ started' = {} /\ gp' = [s \in Sids |-> <<>>] /\ stack' = <<>> /\ ng' = 1
  /\ closed' = FALSE /\ ran' = FALSE /\ stops' = [s \in Sids |-> 0] /\ conns' = {} /\ res' = "ok" /\ ncalls' = 0
  /\ tid' = n /\ l' = 1

Finished == l = Len(TBatch[tid]) + 1
CanStep == ~Finished /\ InvOk /\ ENABLED (Act(TEv) /\ Diff(TEv) = {})
\* (why a call is rejected: the action is not enabled at all, or it leads elsewhere; the differing fields are named by evaluating
\*  Diff on the successor the action alone allows - the actions are deterministic)
WhyNot == IF ~InvOk THEN {"an invariant of WorldLife fails in the state reached"}
          ELSE IF ~ENABLED Act(TEv) THEN {"the specification does not allow this call here"}
          ELSE {"the call leads to another state or outcome than the specification's"}
TAccept ==
  /\ Finished /\ InvOk
  /\ PrintT(<<"WL", tid, "accepted", l - 1>>)
  /\ IF tid < TN THEN ResetTo(tid + 1) ELSE (l' = l + 1 /\ UNCHANGED <<vars, tid>>)
TReject ==
  /\ l <= Len(TBatch[tid]) + 1 /\ ~CanStep /\ (~Finished \/ ~InvOk)
  /\ PrintT(<<"WL", tid, "rejected", l, IF Finished THEN "END" ELSE TEv.a, WhyNot>>)
  /\ IF tid < TN THEN ResetTo(tid + 1) ELSE (l' = Len(TBatch[tid]) + 3 /\ UNCHANGED <<vars, tid>>)

TNext == TStep \/ TAccept \/ TReject
TInit == Init /\ tid = 1 /\ l = 1
TSpec == TInit /\ [][TNext]_tvars
=============================================================================

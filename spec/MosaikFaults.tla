---------------------------- MODULE MosaikFaults ----------------------------
(***************************************************************************)
(* (S) extension for C14: failure of a simulator and the shutdown protocol *)
(* (World.run try/finally -> World.shutdown, scheduler.run gather/cancel,  *)
(* RemoteProxy.stop, mosaik_api_v3.Channel).                               *)
(*                                                                         *)
(* Abstraction: every simulator has a process (sim_process task) that is   *)
(* "idle" (no request outstanding) or "waiting" (request outstanding).     *)
(* One simulator fails in one of the ways the harness can inject:          *)
(*   eof_outstanding, reset_outstanding, remote_exception, raise  (while   *)
(*   a request is outstanding) or eof_idle (while idle).                   *)
(* The model contains the two OPEN findings as explicit branches so that   *)
(* TLC keeps looking for other violations (DESIGN.md §5.4):                *)
(*   D11: after eof_idle the next request to the dead simulator is never   *)
(*        answered (run() hangs)                                           *)
(*   D23: after a reset RemoteProxy.stop() raises and aborts shutdown      *)
(* Invariant Clean: once the event loop is closed every other simulator    *)
(* has been stopped exactly once, the failed one at most once, and no task *)
(* is pending.  Liveness Prompt: after a failure the loop is eventually    *)
(* closed (or the run is in one of the two known states).                  *)
(***************************************************************************)
EXTENDS Naturals, FiniteSets, TLC

CONSTANTS Sims, Kinds, MaxReq    \* MaxReq: requests per simulator (makes ordinary operation finite)

VARIABLES
  proc,     \* [Sims -> {"idle", "waiting", "done", "failed", "cancelled"}]  sim_process tasks
  conn,     \* [Sims -> {"open", "eof", "reset"}]                           state of the connection
  failure,  \* <<>> or <<sim, kind>>
  run,      \* "running" | "raised" | "returned" | "shutdown" | "closed" | "hung" | "shutdown_aborted"
  stops,    \* [Sims -> Nat] stop/finalize received
  tostop,   \* simulators World.shutdown() still has to stop (in order)
  left      \* [Sims -> 0..MaxReq] requests the scheduler will still send
vars == <<proc, conn, failure, run, stops, tostop, left>>

Init == /\ proc = [s \in Sims |-> "idle"] /\ conn = [s \in Sims |-> "open"] /\ failure = <<>>
        /\ run = "running" /\ stops = [s \in Sims |-> 0] /\ tostop = Sims /\ left = [s \in Sims |-> MaxReq]

\* ordinary operation: requests are sent and answered, processes finish
Request(s) == run = "running" /\ proc[s] = "idle" /\ conn[s] = "open" /\ left[s] > 0
              /\ proc' = [proc EXCEPT ![s] = "waiting"] /\ left' = [left EXCEPT ![s] = @ - 1]
              /\ UNCHANGED <<conn, failure, run, stops, tostop>>
Reply(s)   == run = "running" /\ proc[s] = "waiting" /\ conn[s] = "open" /\ proc' = [proc EXCEPT ![s] = "idle"]
              /\ UNCHANGED <<conn, failure, run, stops, tostop, left>>
Finish(s)  == run = "running" /\ proc[s] = "idle" /\ left[s] = 0 /\ proc' = [proc EXCEPT ![s] = "done"]
              /\ UNCHANGED <<conn, failure, run, stops, tostop, left>>

\* the injected failure
Fail(s, k) ==
  /\ run = "running" /\ failure = <<>> /\ k \in Kinds
  /\ IF k = "eof_idle" THEN proc[s] = "idle" /\ conn' = [conn EXCEPT ![s] = "eof"] /\ UNCHANGED proc
     ELSE /\ proc[s] = "waiting"
          /\ proc' = [proc EXCEPT ![s] = "failed"]       \* the outstanding request raises in sim_process
          /\ conn' = [conn EXCEPT ![s] = CASE k = "eof_outstanding" -> "eof" [] k = "reset_outstanding" -> "reset" [] OTHER -> @]
  /\ failure' = <<s, k>>
  /\ UNCHANGED <<run, stops, tostop, left>>

\* D11: a request to a simulator whose connection ended while idle is never answered
RequestDead(s) == run = "running" /\ proc[s] = "idle" /\ conn[s] = "eof" /\ left[s] > 0
                  /\ proc' = [proc EXCEPT ![s] = "waiting"] /\ left' = [left EXCEPT ![s] = @ - 1]
                  /\ UNCHANGED <<conn, failure, run, stops, tostop>>
Hang == /\ run = "running"
        /\ \E s \in Sims : proc[s] = "waiting" /\ conn[s] = "eof"
        /\ \A s \in Sims : proc[s] = "done" \/ (proc[s] = "waiting" /\ conn[s] = "eof")
        /\ run' = "hung" /\ UNCHANGED <<proc, conn, failure, stops, tostop, left>>

\* scheduler.run: gather raises with the first exception; the other processes are cancelled and awaited
Abort ==
  /\ run = "running" /\ \E s \in Sims : proc[s] = "failed"
  /\ proc' = [s \in Sims |-> IF proc[s] \in {"idle", "waiting"} THEN "cancelled" ELSE proc[s]]
  /\ run' = IF failure[2] = "remote_exception" THEN "returned" ELSE "raised"   \* RemoteException is logged, run() returns
  /\ UNCHANGED <<conn, failure, stops, tostop, left>>
Complete == run = "running" /\ (\A s \in Sims : proc[s] = "done") /\ run' = "returned"
            /\ UNCHANGED <<proc, conn, failure, stops, tostop, left>>

\* World.run finally: shutdown()
BeginShutdown == run \in {"raised", "returned"} /\ run' = "shutdown" /\ UNCHANGED <<proc, conn, failure, stops, tostop, left>>
StopSim(s) ==
  /\ run = "shutdown" /\ s \in tostop
  /\ IF conn[s] = "reset" THEN      \* D23: stop() raises ConnectionResetError out of shutdown()
        run' = "shutdown_aborted" /\ UNCHANGED <<stops, tostop>>
     ELSE /\ stops' = [stops EXCEPT ![s] = IF conn[s] = "open" THEN @ + 1 ELSE @]   \* a closed connection receives nothing
          /\ tostop' = tostop \ {s} /\ UNCHANGED run
  /\ UNCHANGED <<proc, conn, failure, left>>
CloseLoop == run = "shutdown" /\ tostop = {} /\ run' = "closed" /\ UNCHANGED <<proc, conn, failure, stops, tostop, left>>

Terminal == run \in {"closed", "hung", "shutdown_aborted"} /\ UNCHANGED vars
Next == \/ \E s \in Sims : Request(s) \/ Reply(s) \/ Finish(s) \/ RequestDead(s) \/ StopSim(s) \/ \E k \in Kinds : Fail(s, k)
        \/ Hang \/ Abort \/ Complete \/ BeginShutdown \/ CloseLoop \/ Terminal
Spec == Init /\ [][Next]_vars /\ WF_vars(Next)

Pending == {s \in Sims : proc[s] \in {"idle", "waiting"}}
Clean == run = "closed" =>
           /\ Pending = {}
           /\ failure # <<>> => /\ \A s \in Sims \ {failure[1]} : stops[s] = 1
                                /\ stops[failure[1]] <= 1
           /\ failure = <<>> => \A s \in Sims : stops[s] = 1
KnownD11 == run = "hung" => failure[2] = "eof_idle"
KnownD23 == run = "shutdown_aborted" => failure[2] = "reset_outstanding"
Prompt == (failure # <<>>) ~> (run \in {"closed", "hung", "shutdown_aborted"})
=============================================================================

---------------------------- MODULE ProgressWake ----------------------------
(***************************************************************************)
(* (W) The wake-up layer below (S): mosaik/progress.py.                    *)
(*                                                                         *)
(* MosaikSched re-evaluates its guards (DepsReady, Settle) on the shared   *)
(* state; the code instead parks every waiting coroutine as a future in    *)
(* Progress._futures of the simulator it waits for and relies on           *)
(* Progress.set() to resolve exactly the futures whose condition has       *)
(* become true.  This module specifies the Progress objects of all         *)
(* simulators (Owners), each on its own:                                   *)
(*                                                                         *)
(*   Add(id, tg, sh, ps)  has_reached / has_passed: returns at once with   *)
(*                        time + shift if the condition already holds,     *)
(*                        otherwise the call is parked                     *)
(*   Set(t)               advance_progress: time := t (never backwards);   *)
(*                        every parked call whose condition now holds is   *)
(*                        resolved with t + shift and removed - cancelled  *)
(*                        ones are removed without a result                *)
(*   Cancel(id)           the waiting task was cancelled                   *)
(*                        (next_step_settled cancels the pending one of    *)
(*                        its two tasks)                                   *)
(*   SetBack(t)           "cannot progress backwards": refused, no change  *)
(*                                                                         *)
(* The invariants are what (S) assumes when it leaves wake-ups out:        *)
(*   NoLostWakeup   no parked call whose condition holds                   *)
(*   SoundResult    a result satisfies the relation the caller asked for   *)
(*                  (reached: target <= result, passed: target < result)   *)
(*                  and is the delayed value of a progress that was set    *)
(*   ExactlyOnce    a call is parked or has its result, never both         *)
(*   Monotone       time never decreases                                   *)
(* EagerOnly = TRUE is the negative control: Set() resolves the first      *)
(* matching call only (a forward loop that deletes while iterating);       *)
(* NoLostWakeup must then fail.                                            *)
(***************************************************************************)
EXTENDS Tiered, TLC

CONSTANTS Owners,     \* the simulators whose Progress objects are modelled
          Times,      \* tiered times a progress may be set to
          Targets,    \* tiered times callers wait for (on the caller's side of the delay)
          Shifts,     \* delay intervals [t, c, p] from a progress to the caller's side
          Ids,        \* call identifiers
          EagerOnly   \* negative control

VARIABLES time,       \* [Owners -> tiered time]          Progress.time
          parked,     \* [Owners -> set of [id, tg, sh, ps]] Progress._futures
          cancelled,  \* [Owners -> set of ids]           parked calls whose future is cancelled
          resolved,   \* set of [id, v, w]                calls that returned, with their value
          refused     \* a backwards set() was refused
wvars == <<time, parked, cancelled, resolved, refused>>

Arr(t, w) == Apply(t, w.sh)
Cond(w, t) == IF w.ps THEN TLess(w.tg, Arr(t, w)) ELSE TLeq(w.tg, Arr(t, w))
Call(i, tg, sh, ps) == [id |-> i, tg |-> tg, sh |-> sh, ps |-> ps]

WInit(T0) ==
  /\ time = T0
  /\ parked = [o \in Owners |-> {}]
  /\ cancelled = [o \in Owners |-> {}]
  /\ resolved = {}
  /\ refused = FALSE

Used == UNION {{w.id : w \in parked[o]} : o \in Owners} \cup {r.id : r \in resolved}

Add(o, i, tg, sh, ps) ==
  LET w == Call(i, tg, sh, ps) IN
  /\ i \notin Used
  /\ IF Cond(w, time[o])
       THEN resolved' = resolved \cup {[id |-> i, v |-> Arr(time[o], w), w |-> w]} /\ UNCHANGED parked
       ELSE parked' = [parked EXCEPT ![o] = @ \cup {w}] /\ UNCHANGED resolved
  /\ UNCHANGED <<time, cancelled, refused>>

\* the effect of set(t) on one progress: which parked calls leave, which of them get a result
Fired(P, t) ==
  LET all == {w \in P : Cond(w, t)} IN
  IF EagerOnly /\ all # {} THEN {CHOOSE w \in all : TRUE} ELSE all
SetEff(P, canc, t) ==
  [left |-> P \ Fired(P, t),
   res  |-> {[id |-> w.id, v |-> Arr(t, w), w |-> w] : w \in {w \in Fired(P, t) : w.id \notin canc}},
   canc |-> canc \ {w.id : w \in Fired(P, t)}]

SetWith(o, t, canc) ==
  LET e == SetEff(parked[o], canc, t) IN
  /\ TLeq(time[o], t)
  /\ time' = [time EXCEPT ![o] = t]
  /\ parked' = [parked EXCEPT ![o] = e.left]
  /\ resolved' = resolved \cup e.res
  /\ cancelled' = [cancelled EXCEPT ![o] = e.canc]
  /\ UNCHANGED refused
Set(o, t) == SetWith(o, t, cancelled[o])

SetBack(o, t) ==
  /\ TLess(t, time[o])
  /\ refused' = TRUE
  /\ UNCHANGED <<time, parked, cancelled, resolved>>

Cancel(o, i) ==
  /\ \E w \in parked[o] : w.id = i
  /\ cancelled' = [cancelled EXCEPT ![o] = @ \cup {i}]
  /\ UNCHANGED <<time, parked, resolved, refused>>

WNext ==
  \/ \E o \in Owners, i \in Ids, tg \in Targets, sh \in Shifts, ps \in BOOLEAN : Add(o, i, tg, sh, ps)
  \/ \E o \in Owners, t \in Times : Set(o, t) \/ SetBack(o, t)
  \/ \E o \in Owners, i \in Ids : Cancel(o, i)

NoLostWakeup == \A o \in Owners : \A w \in parked[o] : ~Cond(w, time[o])
SoundResult == \A r \in resolved :
                  /\ IF r.w.ps THEN TLess(r.w.tg, r.v) ELSE TLeq(r.w.tg, r.v)
                  /\ \E o \in Owners, t \in Times : TLeq(t, time[o]) /\ r.v = Arr(t, r.w)
ExactlyOnce == \A o \in Owners : \A w \in parked[o] : \A r \in resolved : r.id # w.id
CancelledAreParked == \A o \in Owners : cancelled[o] \subseteq {w.id : w \in parked[o]}
Monotone == [][\A o \in Owners : TLeq(time[o], time'[o])]_time
=============================================================================

---------------------------- MODULE ConnectRules ----------------------------
(***************************************************************************)
(* (R) for C11: when must World.connect() reject an attribute pair.        *)
(*                                                                         *)
(* A pair (source attribute, destination attribute) is rejected iff        *)
(*   - the source attribute is not an output of the source model, or       *)
(*   - the destination attribute is not an input of the destination model  *)
(*     (with any_inputs every name is a non-trigger input), or             *)
(*   - the connection is time-shifted or weak, goes into a NON-trigger     *)
(*     input and no initial data is given for the source attribute, or     *)
(*   - the connection is weak and the two simulators share no group        *)
(*     other than the root group (sibling groups are distinct).            *)
(* connect() raises ScenarioError iff some pair of the call is rejected,   *)
(* and a rejected pair leaves no data-flow behind (the scenario then       *)
(* behaves like the one in which only the accepted pairs were connected).  *)
(* (Which pairs the error text names is NOT part of the property: the      *)
(* weak-outside-a-group error names none.)                                 *)
(*                                                                         *)
(* Table rows: [sg, dg (group paths), pairs (seq of [sk, dk]), shift,      *)
(* weak, init, any, out, named (indices of the pairs named in the error),  *)
(* sameobs]; history rows also [prior, prior_out, priorsame]               *)
(***************************************************************************)
EXTENDS Tiered, TLC, Json, IOUtils

Tab == JsonDeserialize(IOEnv.TRACE_FILE)
NR == Len(Tab)
Chunk == 2000
Chunks == (NR + Chunk - 1) \div Chunk

CommonLen(a, b) == CHOOSE m \in 0..Len(a) :
                      /\ m <= Len(b) /\ \A j \in 1..m : a[j] = b[j]
                      /\ \A m2 \in 0..Len(a) : (m2 <= Len(b) /\ \A j \in 1..m2 : a[j] = b[j]) => m2 <= m
ShareNonRootGroup(r) == CommonLen(r.sg, r.dg) >= 1

IsOutput(sk) == sk \in {"pers", "event"}
IsInput(dk, any) == dk \in {"trig", "nontrig"} \/ any
IsNonTrigger(dk, any) == dk = "nontrig" \/ (dk = "none" /\ any)
\* r.nolist: the destination is a hybrid any_inputs model WITHOUT a trigger / non-trigger list - by the hybrid default every
\* input, listed in attrs or not, is then a non-trigger input
NoList(r) == IF "nolist" \in DOMAIN r THEN r.nolist ELSE FALSE

Reject(r, pr) ==
  \/ ~IsOutput(pr.sk)
  \/ ~IsInput(pr.dk, r.any)
  \/ ((r.shift > 0 \/ r.weak) /\ (IsNonTrigger(pr.dk, r.any) \/ NoList(r)) /\ ~r.init)
  \/ (r.weak /\ ~ShareNonRootGroup(r))

RowViol(n) ==
  LET r == Tab[n]
      rejected == {i \in 1..Len(r.pairs) : Reject(r, r.pairs[i])}
  IN (IF rejected # {} /\ r.out = "ok" THEN {"C11_invalid_connection_accepted"} ELSE {})
     \cup (IF rejected = {} /\ r.out = "ScenarioError" THEN {"C11_valid_connection_rejected"} ELSE {})
     \cup (IF r.out = "other" THEN {"C11_wrong_exception"} ELSE {})
     \cup (IF r.out = "ScenarioError" /\ ~r.sameobs THEN {"C11_rejected_call_left_dataflow_behind"} ELSE {})
     \* history rows: the call is made after an earlier REFUSED call of the same world (or after a group block that an exception
     \* left) - "raises exactly when" and "a rejected pair leaves no data-flow behind" mean that this history is irrelevant
     \cup (IF "prior" \in DOMAIN r /\ r.prior_must_fail /\ r.prior_out # "ScenarioError" THEN {"C11_wrong_exception"} ELSE {})
     \cup (IF "prior" \in DOMAIN r /\ ~r.priorsame THEN {"C11_earlier_calls_of_the_same_world_changed_the_result"} ELSE {})

ChunkViol(k) == UNION {{<<c, n>> : c \in RowViol(n)} : n \in ((k - 1) * Chunk + 1)..(IF k * Chunk < NR THEN k * Chunk ELSE NR)}

VARIABLE k
Init == k = 1
Next == k <= Chunks /\ PrintT(<<"R11", k, Chunks, ChunkViol(k)>>) /\ k' = k + 1
Spec == Init /\ [][Next]_k
=============================================================================

"""Deterministic virtual-time asyncio event loop.

Task scheduling, futures, gather, wait(timeout), Event and call_later are
CPython's; only I/O polling and the clock are replaced.  ``_run_once`` calls
``selector.select()`` exactly once per loop iteration, so the fake selector *is*
the schedule controller: it is asked on every iteration whether it wants to
deliver an outstanding simulator reply, and it is told whether the loop is
quiescent (nothing ready to run).

Quiescent + nothing delivered + no timer pending  =>  nothing can ever happen
again: that is the deadlock verdict (``Deadlock``).
"""
import asyncio


class Deadlock(RuntimeError):
    """The loop is idle, no reply is outstanding, and run() has not finished."""


class Livelock(RuntimeError):
    """The iteration bound of the loop was exceeded."""


class _FakeSelector:
    def __init__(self, loop):
        self.loop = loop

    def select(self, timeout):
        lp = self.loop
        lp.iterations += 1
        if lp.iterations > lp.max_iterations:
            raise Livelock("VLOOP-LIVELOCK")
        if lp._ready:  # called with timeout 0 on every busy iteration
            lp.controller(False)
            return []
        if lp.timers_first and timeout is not None and lp.timers_first():
            # "a reply may take longer than any timer the scheduler has set": with replies outstanding the pending timer fires
            # first (outside real-time mode the unchanged scheduler sets no timer during a run, so this never changes anything there)
            lp._vtime += timeout
            return []
        acted = lp.controller(True)
        if acted or lp._ready:
            return []
        if timeout is None:
            raise Deadlock("VLOOP-DEADLOCK")
        lp._vtime += timeout
        return []

    def close(self):
        pass

    def get_map(self):
        return {}


class VLoop(asyncio.BaseEventLoop):
    """``World(asyncio_loop=VLoop(controller))``."""

    def __init__(self, controller=None, max_iterations=2_000_000):
        super().__init__()
        self._vtime = 0.0
        self._selector = _FakeSelector(self)
        self.controller = controller or (lambda quiescent: False)
        self.iterations = 0
        self.max_iterations = max_iterations
        self.clock_reads = 0
        self.pending_at_close = None
        self.timers_first = None  # optional predicate: let a pending timer fire before the next reply is delivered

    def time(self):
        return self._vtime

    def close(self):
        if not self.is_closed():
            # observable for C14: event-loop work left behind when the loop is closed
            self.pending_at_close = [t.get_name() for t in asyncio.all_tasks(self) if not t.done()]
        super().close()

    def _process_events(self, event_list):
        pass

    def _write_to_self(self):
        pass

"""World life cycle (spec/WorldLife.tla): scripts of public World calls - start / group / connect / run / shutdown in any order -
executed on the real World, every call recorded with its outcome and the projection of the World after it, validated by TLC
(WorldLifeTrace.tla).  The scripts are the edge-covering walks of WorldLife's own state graph (spec -> code) and seeded random ones."""
from __future__ import annotations

import contextlib
import io
import json
import os
import random
import re
import shutil
import warnings

from . import mc, tlc

STOPS = {}


def _sim_class():
    import mosaik_api_v3

    class LifeSim(mosaik_api_v3.Simulator):
        def __init__(self):
            super().__init__({"type": "hybrid", "models": {"M": {"public": True, "params": [], "attrs": ["a", "b"], "trigger": ["b"], "non-persistent": ["a"]}}})

        def init(self, sid, time_resolution=1.0, **kw):
            self.sid = sid
            return self.meta

        def create(self, num, model, **kw):
            return [{"eid": f"E{i}", "type": model} for i in range(num)]

        def step(self, time, inputs, max_advance):
            return None

        def get_data(self, outputs):
            return {}

        def finalize(self):
            STOPS[self.sid] = STOPS.get(self.sid, 0) + 1

    return LifeSim


LifeSim = None


def run_script(script):
    """script: list of [action, *args].  Returns the recorded trace (one event per call)."""
    global LifeSim
    import mosaik

    if LifeSim is None:
        LifeSim = _sim_class()
        from loguru import logger

        logger.remove()
        logger.add(lambda m: None)  # (a discarding sink keeps loguru's formatting active, as the default handler would)
    STOPS.clear()
    trace = []
    with contextlib.redirect_stdout(io.StringIO()), contextlib.redirect_stderr(io.StringIO()), warnings.catch_warnings():
        warnings.simplefilter("ignore")
        world = mosaik.World({"S": {"python": "harness.life:LifeSim"}}, skip_greetings=True)
        gid = {id(world.current_group): 0}  # SimGroup object -> number (0 = root), numbered in the order the groups are entered
        ngroups = [0]
        cms = []  # the entered `with world.group():` blocks, innermost last
        facs, ents, conns = {}, {}, []

        def path(g):
            out = []
            while g is not None and gid.get(id(g), -1) != 0:
                out.append(gid.get(id(g), -1))
                g = g.parent
            return out[::-1]

        for call in script:
            a, args = call[0], call[1:]
            if a == "Connect" and (ents.get(args[0]) is None or ents.get(args[1]) is None):
                continue  # (a random script may name a simulator whose start was refused: there is no entity to connect, no call is made)
            res = "ok"
            try:
                if a == "Start":
                    f = world.start("S", sim_id=args[0])
                    facs[args[0]] = f
                    try:
                        ents[args[0]] = f.M()
                    except BaseException:  # noqa: BLE001
                        ents[args[0]] = None
                elif a == "Enter":
                    cm = world.group()
                    cm.__enter__()
                    cms.append(cm)
                    ngroups[0] += 1
                    gid[id(world.current_group)] = ngroups[0]
                elif a == "Exit":
                    if len(trace) % 2:
                        # every other block is left BY AN EXCEPTION that the script catches outside it
                        exc = ValueError("left by an exception")
                        cms.pop().__exit__(ValueError, exc, None)
                    else:
                        cms.pop().__exit__(None, None, None)
                elif a == "Connect":
                    world.connect(ents[args[0]], ents[args[1]], ("a", "b"))
                    conns.append([args[0], args[1]])
                elif a == "Run":
                    world.run(until=2, print_progress=False)
                elif a == "Shutdown":
                    world.shutdown()
            except BaseException as e:  # noqa: BLE001
                res = type(e).__name__
            trace.append({"a": a, "s": args[0] if args else "", "d": args[1] if len(args) > 1 else "", "res": res,
                          "started": sorted(world.sims), "gp": {sid: path(facs[sid]._group) for sid in world.sims if sid in facs},
                          "stack": path(world.current_group), "closed": bool(world.loop.is_closed()), "ran": hasattr(world, "until"),
                          "stops": dict(STOPS), "conns": [list(c) for c in conns]})
        if not world.loop.is_closed():
            try:
                world.shutdown()
            except BaseException:  # noqa: BLE001
                pass
    return trace


def _cover(edges, init, ext=10):
    """Walks from the initial state that together cover every edge: the BFS-tree path to an uncovered edge, the edge, then at most
    `ext` further steps that prefer uncovered edges (short scripts: a World is built for each)."""
    import collections

    out = collections.defaultdict(list)
    for u, v, lab in edges:
        out[u].append((v, lab))
    parent = {init: None}
    q = collections.deque([init])
    while q:
        u = q.popleft()
        for v, lab in out[u]:
            if v not in parent:
                parent[v] = (u, lab)
                q.append(v)

    def tree(u):
        p = []
        while parent[u] is not None:
            pu, lab = parent[u]
            p.append(lab)
            u = pu
        return p[::-1]

    todo = collections.OrderedDict(((u, v, lab), None) for u in sorted(out) for v, lab in out[u] if u in parent)
    total = len(todo)
    paths = []
    while todo:
        (u, v, lab), _ = todo.popitem(last=False)
        path = tree(u) + [lab]
        cur = v
        for _ in range(ext):
            nxt = [(w, ll) for w, ll in out[cur] if (cur, w, ll) in todo]
            if not nxt:
                break
            w, ll = nxt[0]
            del todo[(cur, w, ll)]
            path.append(ll)
            cur = w
        paths.append(path)
    return paths, total, total


_LABEL = re.compile(r'^(\w+)(?:\((.*)\))?$')


def scripts_from_spec(limit=None):
    """TLC dumps WorldLife's state graph (small constants, call counter hidden by a VIEW); the walks that cover every edge are the scripts."""
    wd = tlc.scratch()
    try:
        dump = os.path.join(wd, "wl")
        out, secs, rc = tlc.run_tlc("WorldLife", cfg="WorldLifeDump.cfg", workers=1, timeout=600, extra=("-dump", "dot,actionlabels", dump))
        if "No error has been found" not in out and "Model checking completed" not in out:
            raise tlc.TLCError("WorldLife dump: " + "\n".join(out.splitlines()[-20:]))
        nodes, edges, init = mc.parse_dot(dump + ".dot")
        paths, total, covered = _cover(edges, init, ext=10)
    finally:
        shutil.rmtree(wd, ignore_errors=True)
    scripts = []
    for p in paths:
        sc = []
        for lab in p:
            m = _LABEL.match(lab.strip())
            if not m:
                raise tlc.TLCError(f"WorldLife: unreadable edge label {lab!r}")
            args = [x.strip().strip('"') for x in m.group(2).split(",")] if m.group(2) else []
            sc.append([m.group(1)] + args)
        scripts.append(sc)
    return scripts, {"states": len(nodes), "edges": total, "edges_covered": covered, "walks": len(paths)}


def random_scripts(n, seed):
    rng = random.Random(f"life|{seed}")
    out = []
    for _ in range(n):
        sc, depth = [], 0
        for _ in range(rng.randint(3, 14)):
            a = rng.choice(["Start", "Start", "Start", "Enter", "Exit", "Connect", "Connect", "Run", "Shutdown"])
            if a == "Exit" and depth == 0:
                a = "Enter"
            depth += {"Enter": 1, "Exit": -1}.get(a, 0)
            if a == "Start":
                sc.append([a, rng.choice("ABC")])
            elif a == "Connect":
                started = {c[1] for c in sc if c[0] == "Start"}
                made = {(c[1], c[2]) for c in sc if c[0] == "Connect"}
                opts = [(x, y) for x in sorted(started) for y in sorted(started) if (x, y) not in made]
                if not opts:
                    continue
                x, y = rng.choice(opts)
                sc.append([a, x, y])
            else:
                sc.append([a])
        out.append(sc)
    return out


_WL = re.compile(r'<<"WL", (\d+), "(accepted|rejected)", (\d+)(?:, "(\w+)", (\{.*\}))?>>')


def validate(traces, timeout=900):
    wd = tlc.scratch()
    try:
        path = os.path.join(wd, "life.json")
        with open(path, "w") as f:
            json.dump(traces, f)
        out, secs, rc = tlc.run_tlc("WorldLifeTrace", cfg="WorldLifeTrace.cfg", env={"TRACE_FILE": path}, workers=1, timeout=timeout)
    finally:
        shutil.rmtree(wd, ignore_errors=True)
    verdicts = {}
    for txt in tlc.tuples(out, "WL"):
        m = _WL.match(txt.replace("\n", " "))
        if m:
            verdicts[int(m.group(1))] = {"ok": m.group(2) == "accepted", "at": int(m.group(3)), "action": m.group(4), "why": m.group(5)}
    if len(verdicts) != len(traces):
        raise tlc.TLCError(f"WorldLifeTrace judged {len(verdicts)} of {len(traces)} scripts\n" + "\n".join(out.splitlines()[-25:]))
    st = tlc.stats(out)
    return verdicts, {"states": st["distinct"], "secs": secs}


def layer(tier, seed):
    """Model-check WorldLife, replay its graph into the real World, validate the recorded calls.  Returns the evidence record."""
    out, secs, rc = tlc.run_tlc("WorldLife", cfg="WorldLife.cfg", workers=4, timeout=600)
    if "No error has been found" not in out:
        raise tlc.TLCError("WorldLife.tla: " + "\n".join(out.splitlines()[-30:]))
    mst = tlc.stats(out)
    proof = tlc.run_tlaps("WorldLifeProof", deps=("WorldLife.tla",))
    scripts, ginfo = scripts_from_spec()
    nspec = len(scripts)
    scripts += random_scripts(300 if tier == "quick" else 5000, seed)
    traces = [run_script(s) for s in scripts]
    traces = [t for t in traces if t]
    verdicts, vinfo = validate(traces)
    bad = [{"script": scripts[i - 1][:verdicts[i]["at"]], "at": verdicts[i]["at"], "action": verdicts[i]["action"], "why": verdicts[i]["why"],
            "logged": traces[i - 1][verdicts[i]["at"] - 1] if verdicts[i]["at"] <= len(traces[i - 1]) else None}
           for i in sorted(verdicts) if not verdicts[i]["ok"]]
    for b in bad[:3]:
        print(f"DRIFT world life cycle call {b['at']} ({b['action']}) of script {json.dumps(b['script'])[:160]}: {b['why']} logged={json.dumps(b['logged'])[:300]} "
              "(code and specification WorldLife differ; not a verdict)")
    return {"module": "WorldLife", "model_states": mst["distinct"], "model_transitions": mst["generated"], "graph_replayed": ginfo, "scripts_from_the_specification": nspec,
            "random_scripts": len(scripts) - nspec, "calls_validated": sum(len(t) for t in traces), "trace_validation_states": vinfo["states"],
            "rejected": len(bad), "drift": bad[:5],
            "tlaps": dict(proof, theorems="InitInv, StepInv (finalize count = 1 iff loop closed and simulator started; run => closed: inductive for any ids / groups / calls), Consequences (the five state invariants follow)"),
            "invariants": "NoDoubleStop, StopOnlyStarted, ClosedStopsAll, OpenStopsNone, RanImpliesClosed, GroupOfStarted; action properties Monotone, RefusedChangesNothing, AtMostOneRun"}

"""Run the real mosaik scheduler on the virtual loop with scripted asynchronous simulators.

``execute(scn, behaviour, policy)`` builds a ``mosaik.World`` from the scenario
through the public API only (``World``, ``start``, ``group``, ``connect``,
``set_initial_event``, ``run``), makes every ``step``/``get_data`` request
genuinely asynchronous and lets *policy* decide at every loop iteration which
outstanding reply is delivered.  The observable history at the simulator-API
boundary is recorded (``ctx.trace``).
"""
from __future__ import annotations

import asyncio
import json
import os
import copy
from dataclasses import dataclass, field
from typing import Any, Callable, Dict, List, Optional

from . import quiet, scn as S
from .vloop import VLoop, Deadlock, Livelock

import mosaik._debug  # noqa: F401  (first, so that its saved originals are the shipped functions)
import mosaik
from mosaik.proxies import BaseProxy
from mosaik.simmanager import StarterCollection
from mosaik.exceptions import ScenarioError, SimulationError

quiet()


@dataclass
class Pending:
    kind: str  # 'step' | 'get_data'
    sid: str
    k: int  # 1-based index of the step this request belongs to
    args: tuple
    fut: asyncio.Future
    seq: int = 0  # global request number


@dataclass
class Reply:
    """What a behaviour hands back for one request."""

    value: Any = None
    exc: Optional[BaseException] = None
    calls: List[tuple] = field(default_factory=list)  # [('set_data', data) | ('set_event', t) | ('get_data', attrs) ...]
    fault: Optional[str] = None  # remote transport: 'eof' | 'reset' (instead of the reply) | 'eof_idle' (die after replying)


class Ctx:
    """Everything belonging to one execution."""

    def __init__(self, scn, behaviour, policy):
        self.scn = scn
        self.behaviour = behaviour
        self.policy = policy
        self.pending: Dict[str, Pending] = {}
        self.trace: List[dict] = []
        self.nstep: Dict[str, int] = {}
        self.steptime: Dict[str, int] = {}
        self.proxies: Dict[str, "AsyncProxy"] = {}
        self.nreq = 0
        self.delivered: List[tuple] = []  # the schedule actually taken: (controller call no., sid, kind, quiescent)
        self.replies: List[tuple] = []  # (sid, kind, k, value) of every delivered reply
        self.ncall = 0
        self.world = None
        self.max_requests = 800  # (a run of the families needs well under 200 requests; more is reported as livelock)
        self.has_out = set()
        self.internal: Optional[list] = None  # filled by harness.internal when enabled
        self.wake: Optional[list] = None  # filled by harness.wake when enabled (Progress.set / _add_trigger calls)
        self.wake_init: dict = {}
        self.wake_truncated = False
        self.last_reply: Dict[tuple, Any] = {}
        self.stubs: Dict[str, Any] = {}  # fake-stream remote stubs by sid
        self.rt = scn.get("rt")  # real-time configuration or None
        self.rt_t0 = 0.0
        if self.rt:
            # the trace measures wall-clock time in ticks of 1/1024 simulation STEP (rt_factor * time_resolution seconds), so
            # that runs with very small or very large factors are observed with the same resolution
            self.TICKS_PER_SECOND = 1024.0 / (self.rt["rt_factor"] * self.rt.get("time_resolution", 1.0))
        self.faults: List[dict] = []  # planned faults (harness/faults)
        self.rels: List[list] = []  # [[sid, eid], [sid, eid']] for every relation those replies declared ('rel')
        self.created: List[list] = []  # [sid, eid, type] of every entity the scripted simulators returned from create() (children too)

    TICKS_PER_SECOND = 1024

    def ticks(self):
        """Virtual wall clock since the start of run(), in ticks of 1/1024 simulation step."""
        return int((self.loop.time() - self.rt_t0) * self.TICKS_PER_SECOND)

    def deliver_now(self, sid):
        p = self.pending.pop(sid, None)
        if p is None or p.fut.done():
            return
        rep = self.behaviour.reply(self, p)
        self.last_reply[(sid, p.kind)] = rep.value
        self.delivered.append((self.ncall, sid, p.kind, False))
        p.fut.set_result(rep)

    def fault_point(self, sid, where):
        """Hook for fault injection at named points of the protocol (no-op unless faults are planned)."""
        for f in self.faults:
            if f.get("sid") == sid and f.get("at") == where and not f.get("done"):
                f["done"] = True
                f["fire"](self, f)

    def record(self, ev: dict):
        self.trace.append(ev)


CTX: Optional[Ctx] = None


def _inp_list(inputs) -> list:
    # (names that are not strings - a change may key the inputs by None - are recorded as "<repr>": no connection has such a slot)
    def name(x):
        return x if isinstance(x, str) else f"<{x!r}>"

    out = []
    for deid, attrs in sorted(inputs.items(), key=lambda kv: name(kv[0])):
        for da, srcs in sorted(attrs.items(), key=lambda kv: name(kv[0])):
            for src, v in sorted(srcs.items(), key=lambda kv: name(kv[0])):
                ssid, _, seid = name(src).partition(".")
                out.append({"de": name(deid), "da": name(da), "src": ssid, "se": seid, "val": "None" if v is None else str(v)})
    return out


class AsyncProxy(BaseProxy):
    """A ``BaseProxy`` whose ``send()`` parks ``step``/``get_data`` in a future the
    controller resolves, i.e. an in-process simulator made asynchronous."""

    def __init__(self, ctx: Ctx, mosaik_remote):
        self.ctx = ctx
        self.remote = mosaik_remote
        self.sid = None
        self._meta = None
        self.nent = 0

    async def init(self, sid, **kw):
        self.sid = sid
        typ = S.sim_by_id(self.ctx.scn)[sid]["type"]
        self._meta = copy.deepcopy(self.ctx.behaviour.meta(sid, typ))
        simrec = S.sim_by_id(self.ctx.scn)[sid]
        if simrec.get("any_inputs"):
            self._meta["models"]["M"]["any_inputs"] = True
        if simrec.get("meta"):
            self._meta = copy.deepcopy(simrec["meta"])
        if simrec.get("set_events"):
            self._meta["set_events"] = True  # the simulator declares that it MAY call set_event (it need not ever do so)
        if simrec.get("infer_triggers") and typ == "hybrid" and not simrec.get("meta"):
            # the trigger inputs are not DECLARED at all: any_inputs with a non-trigger list that covers the declared inputs and no
            # trigger key - every other attribute name (ti, ti2) is then a trigger input by inference
            m = self._meta["models"]["M"]
            m["attrs"] = [a for a in m["attrs"] if not S.is_trig(a)]
            m["non-trigger"] = list(m["attrs"])  # (covers every declared attribute; outputs may also serve as input names)
            m.pop("trigger", None)
            m["any_inputs"] = True
        if simrec.get("children") == "swapped_parent" and typ == "hybrid":
            # the entities that take part in the scenario are CHILDREN (non-public model K with the usual attributes and roles) of
            # entities of a public model M that has the SAME attribute names with the OPPOSITE roles (i / i2 trigger, ti non-trigger,
            # p non-persistent, e persistent): a child's classification must be that of ITS model
            m = self._meta["models"]["M"]
            k = dict(copy.deepcopy(m), public=False)
            ins = [a for a in m["attrs"] if a.startswith(("i", "ti"))]
            outs = [a for a in m["attrs"] if a not in ins]
            m["trigger"] = [a for a in ins if not S.is_trig(a)]
            m["non-persistent"] = [a for a in outs if S.is_pers(a)]
            self._meta["models"]["K"] = k
            self.swapped = True
        elif simrec.get("children"):
            # a second, NON-PUBLIC model whose entities only exist as children of the public model's entities, with its own
            # attributes (roles by prefix as usual: pk persistent / ek event output, ik non-trigger / tik trigger input)
            k = {"public": False, "params": [], "attrs": ["ik", "tik", "pk", "ek"], "trigger": ["tik"], "non-persistent": ["ek"]}
            if simrec["children"] == "nolist":
                k.pop("trigger")
            if self._meta["models"]["M"].get("any_inputs"):
                k["any_inputs"] = True
            self._meta["models"]["K"] = k
        self.ctx.proxies[sid] = self
        return [3, 0]

    @property
    def meta(self):
        return self._meta

    def _create(self, args):
        ctx = self.ctx
        num, model = args
        ents = [{"eid": f"E{self.nent + i}" + (self.ctx.scn.get("eid_suffix") or ""), "type": model} for i in range(num)]
        self.nent += num
        if getattr(self, "swapped", False):
            # parents P<n> of model M, each with one child E<n> of model K: the scenario's entity ids name the children
            return [{"eid": "P" + e["eid"][1:], "type": model, "children": [{"eid": e["eid"], "type": "K"}]} for e in ents]
        if S.sim_by_id(ctx.scn)[self.sid].get("children"):
            for e in ents:
                e["children"] = [{"eid": "K" + e["eid"][1:], "type": "K"}]
        return ents

    async def send(self, request):
        func, args, kwargs = request
        ctx = self.ctx
        if func == "create":
            res = self._create(args)

            if ctx.scn.get("info_requests"):
                # relations declared by the simulator itself: every entity names the FIRST entity this simulator ever created (for the
                # first one that is a relation to itself; a child names its parent as well) - they are edges of the entity graph too
                for e in res:
                    e["rel"] = [self.first_eid] if getattr(self, "first_eid", None) else [e["eid"]]
                    self.first_eid = getattr(self, "first_eid", None) or e["eid"]
                    for ch in e.get("children") or []:
                        ch["rel"] = [e["eid"]]

            def note(es):
                for e in es:
                    ctx.created.append([self.sid, e["eid"], e["type"]])
                    for r in e.get("rel") or []:
                        ctx.rels.append([[self.sid, e["eid"]], [self.sid, r]])
                    note(e.get("children") or [])
            note(res)
            return res
        if func == "setup_done":
            ctx.record({"k": "SETUP", "s": self.sid})
            plan = getattr(ctx.behaviour, "plan", None)
            if plan and plan["sid"] == self.sid and plan["req"] == "setup_done" and plan["kind"] == "raise":
                ctx.record({"k": "FAULT", "s": self.sid, "kind": "raise", "req": "setup_done"})
                from .behave import make_exc

                raise make_exc(plan.get("exc"), f"injected failure in {self.sid}.setup_done")
            return None
        if func in ("step", "get_data"):
            loop = asyncio.get_running_loop()
            fut = loop.create_future()
            ctx.nreq += 1
            if func == "step":
                ctx.nstep[self.sid] = ctx.nstep.get(self.sid, 0) + 1
                t, inputs, m = args
                ctx.steptime[self.sid] = t
                ev = {"k": "SB", "s": self.sid, "t": _enc_time(t), "m": _enc_time(m), "inp": _inp_list(inputs)}
                if ctx.rt is not None:
                    ev["w"] = ctx.ticks()
                ctx.record(ev)
            else:
                ctx.record({"k": "DB", "s": self.sid, "req": sorted([eid, sorted(a)] for eid, a in args[0].items())})
            p = Pending(func, self.sid, ctx.nstep.get(self.sid, 0), copy.deepcopy(tuple(args)), fut, ctx.nreq)
            ctx.pending[self.sid] = p
            if ctx.rt is not None:
                # real-time runs: the reply arrives after the step's (virtual) duration, not when a controller says so
                dur = ctx.behaviour.duration(ctx, p) if hasattr(ctx.behaviour, "duration") else 0.0
                loop.call_later(dur, ctx.deliver_now, self.sid)
            rep: Reply = await fut
            for call in rep.calls:
                await self._callback(call)
            if func == "step" and ctx.scn.get("info_requests") and rep.exc is None:
                for call in _info_calls(ctx, self.sid, ctx.nstep.get(self.sid, 0)):
                    await self._callback(call)
            if rep.exc is not None:
                ctx.record({"k": "FAULT", "s": self.sid, "kind": "raise", "req": func})
                raise rep.exc
            res = rep.value
            if func == "step":
                nk, n = _enc_next(res)
                ev = {"k": "SE", "s": self.sid, "nk": nk, "n": n, "nodata": self.sid not in ctx.has_out}
                if ctx.rt is not None:
                    ev["w"] = ctx.ticks()
                ctx.record(ev)
            else:
                ctx.record(_de_event(self.sid, res, ctx.steptime[self.sid]))
            return copy.deepcopy(res)
        raise NotImplementedError(func)

    async def _callback(self, call, ext=False):
        name, arg = call
        ctx = self.ctx
        ev = {"k": "CB", "s": self.sid, "f": name, "arg": _enc_cb(name, arg), "res": "ok"}
        if ext:
            ev["ext"] = True
            ev["w"] = ctx.ticks()
        try:
            if name == "set_event":
                ctx.in_set_event = arg  # (a warning logged while this call is processed belongs to it, whatever its wording)
            ctx.in_async_call = self.sid
            try:
                if name == "get_progress":
                    r = await self.remote.get_progress()
                elif name == "get_related_entities":
                    r = await (self.remote.get_related_entities() if arg is None else self.remote.get_related_entities(arg))
                else:
                    r = await getattr(self.remote, name)(arg)
            finally:
                ctx.in_set_event = None
                ctx.in_async_call = None
            if name == "get_data":
                ev["val"] = _enc_cb("get_data_result", r)
            elif name == "get_progress":
                ev["arg"] = _enc_progress(ctx, r)
            elif name == "get_related_entities":
                ev.update(_enc_related(ctx, arg, r))
        except ScenarioError:
            ev["res"] = "ScenarioError"
        except SimulationError:
            ev["res"] = "SimulationError"
        except BaseException as e:  # noqa: BLE001
            ev["res"] = type(e).__name__
            if (getattr(ctx.behaviour, "plan", None) or {}).get("forwarded"):
                # the request failed because the simulator it was passed on to failed (C14 cases): this simulator does not handle that,
                # the exception leaves its step like any other
                ctx.record(ev)
                raise
        if name == "get_progress" and ev["res"] != "ok":
            ev["arg"] = -2
        if name == "get_related_entities" and ev["res"] != "ok":
            ev.update(_enc_related(ctx, arg, None))
        ctx.record(ev)

    async def stop(self):
        self.ctx.record({"k": "STOP", "s": self.sid})


def _info_calls(ctx, sid, k):
    """Information requests (get_progress / get_related_entities in its three argument shapes) that a scripted simulator issues
    during step k: decided by a hash of (scenario seed, simulator, step), so that they do not depend on the schedule."""
    import hashlib

    hsh = int(hashlib.sha256(f"info|{ctx.scn.get('info_requests')}|{sid}|{k}".encode()).hexdigest()[:8], 16)
    calls = []
    if hsh % 3 != 0:
        calls.append(("get_progress", None))
    ents = [f"{c[0]}.{c[1]}" for c in ctx.created]
    kind = (hsh // 3) % 6
    if kind == 0:
        calls.append(("get_related_entities", None))
    elif kind == 1 and ents:
        calls.append(("get_related_entities", ents[(hsh // 18) % len(ents)]))
    elif kind == 2 and ents:
        n = 1 + (hsh // 18) % min(3, len(ents))
        calls.append(("get_related_entities", [ents[((hsh // 54) + 7 * i) % len(ents)] for i in range(n)]))
    return calls


def _enc_progress(ctx, r):
    """get_progress answers a percentage: the mean of the simulators' progress times over `until`.  The trace carries the SUM of the
    progress times it stands for (a whole number), -1 if it stands for none."""
    n, until = len(ctx.scn["sims"]), ctx.scn["until"]
    if isinstance(r, bool) or not isinstance(r, (int, float)) or r != r:
        return -1
    x = r * n * until / 100.0
    return int(round(x)) if abs(x - round(x)) < 1e-6 and 0 <= x < 10**8 else -1


def _enc_related(ctx, arg, r):
    def split(full):
        for c in ctx.created:  # (entity and simulator ids may contain dots: resolve a full id by the entities that exist)
            if f"{c[0]}.{c[1]}" == full:
                return [c[0], c[1]]
        sid, _, eid = str(full).partition(".")
        return [sid, eid]

    out = {"shape": "all" if arg is None else "one" if isinstance(arg, str) else "many", "created": [list(c) for c in ctx.created], "rels": [list(r) for r in ctx.rels],
           "q": [] if arg is None else [split(arg)] if isinstance(arg, str) else [split(a) for a in dict.fromkeys(arg)], "nodes": [], "edges": [], "rel": []}
    if r is None:
        return out
    try:
        if arg is None:
            out["nodes"] = sorted(split(n) + [str(d.get("type"))] for n, d in r["nodes"].items())
            out["edges"] = sorted([split(e[0]), split(e[1])] for e in r["edges"])
        elif isinstance(arg, str):
            out["rel"] = sorted([split(arg), split(n), str(d.get("type"))] for n, d in r.items())
        else:
            out["rel"] = sorted([split(q), split(n), str(d.get("type"))] for q, rel in r.items() for n, d in rel.items())
    except Exception as e:  # noqa: BLE001  (an answer of another shape)
        out["res_shape"] = f"{type(e).__name__}"
        out["nodes"], out["edges"], out["rel"] = [["?", "?", "?"]], [], [[["?", "?"], ["?", "?"], "?"]]
    return out


def _enc_time(t):
    """The time of a step request for the trace: mosaik only ever asks for integer times; anything else (a change let a
    malformed next-step value through) is recorded as the impossible time -999, which no demand of the reference matches."""
    return t if isinstance(t, int) and not isinstance(t, bool) and abs(t) < 10**9 else -999


def _enc_next(res):
    """Encode a step reply for the trace: (kind, int) with kind in int / none / bad."""
    if res is None:
        return "none", 0
    if isinstance(res, bool) or not isinstance(res, int) or abs(res) > 10**6:
        return "bad", 0
    return "int", res


def _enc_cb(name, arg):
    if name == "set_data":
        out = []
        for src_full, dests in sorted(arg.items()):
            for dst_full, attrs in sorted(dests.items()):
                dsid, _, deid = dst_full.partition(".")
                ssid, _, seid = src_full.partition(".")
                for a, v in sorted(attrs.items()):
                    out.append({"src": ssid, "se": seid, "dst": dsid, "de": deid, "da": a, "val": str(v)})
        return out
    if name == "set_event":
        return int(arg)
    if name == "get_data":
        return sorted({full.partition(".")[0] for full in arg})
    if name == "get_data_result":
        return [[full, [[a, "None" if v is None else str(v)] for a, v in sorted(vals.items())]] for full, vals in sorted(arg.items())]
    return str(arg)


def _de_event(sid, res, steptime):
    ot = steptime
    vals = []
    okshape = isinstance(res, dict)
    if okshape:
        ot = res.get("time", steptime)
        for eid, attrs in sorted(res.items()):
            if eid == "time" or not isinstance(attrs, dict):
                continue
            for a, v in sorted(attrs.items()):
                vals.append([eid, a, "None" if v is None else str(v)])
    otk = "int"
    if isinstance(ot, bool) or not isinstance(ot, int) or abs(ot) > 10**6:
        otk, ot = "bad", 0
    return {"k": "DE", "s": sid, "otk": otk, "ot": ot, "vals": vals}


async def _starter(mosaik_config, sim_name, sim_config, mosaik_remote):
    return AsyncProxy(CTX, mosaik_remote)


StarterCollection()["vscripted"] = _starter


# ---------------------------------------------------------------------------
# building the World from a scenario


def build_world(ctx: Ctx, loop, world_kw=None, connect_order=None):
    scn = ctx.scn
    kw = dict(skip_greetings=True, cache=scn["cache"], asyncio_loop=loop, max_loop_iterations=scn["maxloop"])
    if scn.get("maxloop_late") is not None:
        # the bound is a public attribute of the World: constructed with another value, ASSIGNED after the simulators were started
        kw["max_loop_iterations"] = scn["maxloop_late"]
    if scn.get("debug"):
        kw["debug"] = True
    if scn.get("time_resolution") is not None:
        kw["time_resolution"] = scn["time_resolution"]
    if scn.get("rt") and scn["rt"].get("time_resolution") is not None:
        kw["time_resolution"] = scn["rt"]["time_resolution"]
    kw.update(world_kw or {})
    if scn.get("world_positional") and not world_kw:
        # the documented positional order of the constructor: World(sim_config, mosaik_config, time_resolution, debug, cache,
        # max_loop_iterations) - the event loop by keyword
        import contextlib as _cl
        import io as _io

        import mosaik.scenario as _ms

        _saved = getattr(_ms, "print_greetings", None)
        if _saved is not None:
            _ms.print_greetings = lambda: None  # (skip_greetings is left at its default; only the banner is suppressed)
        try:
            with _cl.redirect_stdout(_io.StringIO()):
                world = mosaik.World({}, None, kw.get("time_resolution", 1.0), kw.get("debug", False), kw["cache"], kw["max_loop_iterations"],
                                     asyncio_loop=kw["asyncio_loop"])
        finally:
            if _saved is not None:
                _ms.print_greetings = _saved
    else:
        world = mosaik.World({}, **kw)
    ctx.world = world
    sims = S.sim_by_id(scn)
    order = scn.get("order") or [s["sid"] for s in scn["sims"]]
    ents: Dict[str, list] = {}

    def start(sid):
        transport = sims[sid].get("transport") or scn.get("transport") or "async"
        if transport == "remote":
            from . import remote  # noqa: F401  registers the starter

            world.sim_config[sid] = {"vremote": True}
        elif transport == "local":
            from . import local  # noqa: F401

            cls = "LocalGenSim" if sims[sid].get("gen") else "LocalSimV2" if sims[sid].get("api") == "2.2" else "LocalSim"
            world.sim_config[sid] = {"python": "harness.local:" + cls}
        else:
            world.sim_config[sid] = {"vscripted": True}
        if sims[sid].get("api_version"):
            world.sim_config[sid]["api_version"] = sims[sid]["api_version"]
        import contextlib
        import io

        with contextlib.redirect_stdout(io.StringIO()):  # (mosaik_api_v3 print()s a deprecation notice for old signatures)
            fac = world.start(sid, sim_id=sid)
        ents[sid] = fac.M.create(sims[sid].get("nent", 1))
        if sims[sid].get("children") == "swapped_parent" and ents[sid] and ents[sid][0].eid.startswith("P") and ents[sid][0].children:
            ents[sid] = [e.children[0] for e in ents[sid]]

    def visit(path):
        for sid in order:
            if tuple(sims[sid]["gpath"]) == path:
                start(sid)
        children = []
        for sid in order:
            gp = tuple(sims[sid]["gpath"])
            if len(gp) > len(path) and gp[: len(path)] == path and gp[len(path)] not in children:
                children.append(gp[len(path)])
        for c in children:
            if cm_mode == "upfront":
                with cms[path + (c,)]:
                    visit(path + (c,))
            elif cm_mode == "decorator":
                in_group(path + (c,))
            else:
                with world.group():
                    visit(path + (c,))

    # how the group context managers are created and entered (the group tree is given by where they are ENTERED):
    # inline `with world.group():` / every manager created up front, entered later / one manager used as a decorator for every group
    cm_mode = scn.get("group_cm")
    cms = {}
    if cm_mode == "upfront":
        for sid in order:
            gp = tuple(sims[sid]["gpath"])
            for k in range(1, len(gp) + 1):
                if gp[:k] not in cms:
                    cms[gp[:k]] = world.group()
    elif cm_mode == "decorator":
        @world.group()
        def in_group(path):
            visit(path)
    if scn.get("abandoned_group"):
        # a group block that is left by an exception which the scenario script catches (e.g. a failed start or connect inside the
        # block): everything started afterwards is, by the program text, outside that group
        class _Abandon(Exception):
            pass

        try:
            with world.group():
                raise _Abandon()
        except _Abandon:
            pass
    visit(())
    if scn.get("maxloop_late") is not None:
        world.max_loop_iterations = scn["maxloop"]
    conns = list(scn["conns"])
    if connect_order is not None:
        conns = [conns[i] for i in connect_order]
    sfx = scn.get("eid_suffix") or ""

    def eidx(e):
        """index of the entity with (possibly decorated) id e in its simulator's entity list"""
        return int((e[:-len(sfx)] if sfx and e.endswith(sfx) else e)[1:])

    calls = []  # [connection record of the call's options, [connections made by this call]]
    for c in conns:
        if scn.get("multipair") and c["sa"]:
            # several attribute pairs in ONE connect() call: connections between the same entities with the same options
            # (and, per source attribute, the same initial data) are merged into the first such call
            key = (c["src"], c["dst"], c["se"], c["de"], c["shift"], c["weak"], c["async"])
            for k0, group in calls:
                if k0 == key and all(g["sa"] != c["sa"] or g["init"] == c["init"] for g in group) \
                        and not any(g["sa"] == c["sa"] and g["da"] == c["da"] for g in group):
                    group.append(c)
                    break
            else:
                calls.append((key, [c]))
        else:
            calls.append((None, [c]))
    def refused(when):
        # connect() calls that mosaik must REFUSE (unknown source attribute) and whose ScenarioError the scenario script catches:
        # they are not connections of the scenario and must leave nothing behind
        from mosaik.exceptions import ScenarioError as _SE

        for r in scn.get("refused_calls") or []:
            if r.get("when", "before") != when:
                continue
            try:
                world.connect(ents[r["src"]][0], ents[r["dst"]][0], ("zz_no_such_output", r.get("da", "ti")), **(r.get("kw") or {}))
                ctx.refused_accepted = True
            except _SE:
                pass

    refused("before")
    ncall = 0
    for _, group in calls:
        if scn.get("precheck") is not None and ncall == scn["precheck"]:
            # the script validates the data-flow itself (public World.ensure_no_dataflow_cycles) before it makes further connections;
            # whatever that call says about the graph so far, run() judges the complete graph
            try:
                world.ensure_no_dataflow_cycles()
            except Exception:  # noqa: BLE001
                pass
        ncall += 1
        c = group[0]
        ckw = {}
        if c["shift"]:
            ckw["time_shifted"] = c["shift"] if c["shift"] != 1 else True
        if c["weak"]:
            ckw["weak"] = True
        init = {g["sa"]: g["init"] for g in group if g["init"]}
        if init:
            ckw["initial_data"] = init
        if c["async"]:
            ckw["async_requests"] = True
        pairs = [(g["sa"], g["da"]) for g in group if g["sa"]]
        if scn.get("connect_one") and len(pairs) == 1 and not c["async"] and hasattr(world, "connect_one"):
            # the public single-pair method World.connect_one (the project's own tests call it directly)
            kw1 = {k: v for k, v in ckw.items() if k in ("time_shifted", "weak")}
            if c["init"]:
                kw1["initial_data"] = c["init"]
            names = (c["sa"],) if c["sa"] == c["da"] else (c["sa"], c["da"])  # (same name on both sides: the destination name is omitted)
            world.connect_one(ents[c["src"]][eidx(c["se"])], ents[c["dst"]][eidx(c["de"])], *names, **kw1)
            continue
        pairs = [p_[0] if p_[0] == p_[1] else p_ for p_ in pairs]  # connect(a, b, 'p') for ('p', 'p')
        world.connect(ents[c["src"]][eidx(c["se"])], ents[c["dst"]][eidx(c["de"])], *pairs, **ckw)
    refused("after")
    for c in conns:
        if c["sa"]:
            ctx.has_out.add(c["src"])
    for s in scn["sims"]:
        if s["initev"]:
            world.set_initial_event(s["sid"], 0)
        for t in s.get("initevs") or []:
            world.set_initial_event(s["sid"], t)  # (an initial event at a later time, possibly several per simulator)
    return world, ents


# ---------------------------------------------------------------------------
# executing


class Hang(BaseException):
    """The code under test used more CPU time than the watchdog allows (an execution normally takes milliseconds):
    a non-terminating loop in mosaik, reported as outcome "hang"."""


EXEC_LIMIT = float(os.environ.get("VERIF_EXEC_LIMIT", "30"))  # seconds of CPU time per execution (build + run)


class _Watchdog:
    def __enter__(self):
        import signal
        import threading

        self.on = threading.current_thread() is threading.main_thread() and EXEC_LIMIT > 0
        if self.on:
            def fire(signum, frame):
                raise Hang(f"no result within {EXEC_LIMIT:.0f} s")

            # CPU time of this process (ITIMER_PROF), not wall-clock time: a loaded machine must not look like a hang
            self.old = signal.signal(signal.SIGPROF, fire)
            signal.setitimer(signal.ITIMER_PROF, EXEC_LIMIT)
        return self

    def __exit__(self, *a):
        import signal

        if self.on:
            signal.setitimer(signal.ITIMER_PROF, 0)
            signal.signal(signal.SIGPROF, self.old)
        return False


def classify(exc: BaseException) -> dict:
    name = type(exc).__name__
    msg = str(exc)
    if isinstance(exc, Hang):
        return {"r": "hang", "msg": str(exc)}
    if isinstance(exc, Deadlock):
        return {"r": "deadlock", "msg": ""}
    if isinstance(exc, Livelock):
        return {"r": "livelock", "msg": ""}
    return {"r": name, "msg": msg[:400]}


CATS = [
    ("loop_guard", "has performed a sub-step more than"),
    ("bad_next_type", "must be of type int"),
    ("bad_next_past", "must be later than the current"),
    ("bad_output_time", "Output time ("),
    ("tb_none", "time-based simulator must always return"),
    ("already_progressed", "but it has already progressed"),
    ("backwards", "cannot progress backwards"),
    ("incomparable", "are incomparable"),
    ("closed_connection", "closed its connection"),
    ("too_slow", "Simulation too slow"),
    ("cycle", "Your scenario contains cycles"),
]


def categorize(outcome, scn=None) -> str:
    """What kind of end a run took.  The wording of mosaik's messages is not part of any property, so the three categories the
    reference semantics reads are recognised by the exception TYPE first (a reworded message must not look like a failure):
    cycle = run() raised ScenarioError, too_slow = RuntimeError of a strict real-time run, loop_guard = SimulationError that
    talks about loops / sub-steps / iterations; the current wording is the fallback."""
    if outcome["r"] in ("ok", "deadlock", "livelock"):
        return outcome["r"]
    msg = outcome["msg"]
    low = msg.lower()
    if outcome["r"] == "ScenarioError" and outcome.get("phase", "run") == "run":
        return "cycle"
    if outcome["r"] == "RuntimeError" and ((scn or {}).get("rt") or {}).get("strict") and ("slow" in low or "behind" in low or "real" in low):
        return "too_slow"
    if outcome["r"] == "SimulationError" and any(w in low for w in ("sub-step", "substep", "loop", "iteration")):
        return "loop_guard"
    for cat, needle in CATS:
        if needle in msg:
            return cat
    return "other"


def named_sims(scn, msg) -> list:
    """The simulator ids that occur in an error message (as whole words)."""
    import re

    return [s["sid"] for s in scn["sims"] if re.search(r"(?<![A-Za-z0-9_])" + re.escape(s["sid"]) + r"(?![A-Za-z0-9_])", msg)]


def hash_parity(ctx) -> bool:
    """A reproducible coin per execution (policy seed if the policy has one, else the scenario)."""
    import zlib

    sd = getattr(ctx.policy, "seed", None)
    key = repr(sd) if sd is not None else json.dumps(ctx.scn, sort_keys=True, default=str)
    return zlib.crc32(key.encode()) % 2 == 0


def make_controller(ctx: Ctx):
    def controller(quiescent: bool) -> bool:
        ctx.ncall += 1
        if not ctx.pending:
            return False
        if len(ctx.delivered) >= ctx.max_requests:
            raise Livelock("too many requests")
        sid = ctx.policy.choose(ctx, quiescent)
        if sid is None:
            return False
        p = ctx.pending.pop(sid)
        rep = ctx.behaviour.reply(ctx, p)
        ctx.last_reply[(sid, p.kind)] = rep.value
        ctx.delivered.append((ctx.ncall, sid, p.kind, bool(quiescent)))
        ctx.replies.append((sid, p.kind, p.k, rep))
        p.fut.set_result(rep)
        return True

    return controller


def execute(scn: dict, behaviour, policy, run_kw=None, world_kw=None, connect_order=None, hooks=None, internal_trace=False) -> Ctx:
    """One execution of the real scheduler. Returns the context (trace + outcome)."""
    global CTX
    scn = S.normalize(scn)
    ctx = CTX = Ctx(scn, behaviour, policy)
    loop = VLoop(make_controller(ctx))
    asyncio.set_event_loop(loop)
    ctx.loop = loop
    world = None
    try:
        try:
            with _Watchdog():
                world, ents = build_world(ctx, loop, world_kw, connect_order)
            ctx.ents = ents
        except BaseException as e:  # noqa: BLE001
            ctx.outcome = dict(classify(e), phase="build")
            return ctx
        if hooks:
            hooks(ctx)
        if scn.get("query_before_run") and all((x.get("transport") or scn.get("transport") or "async") == "async" for x in scn["sims"]):
            # the public query World.get_data() BEFORE the run, on every source entity of a data connection: it returns what the
            # simulators answer and must change nothing about the run that follows
            n0 = len(ctx.trace)
            added = [x["sid"] for x in scn["sims"] if x["sid"] not in ctx.steptime]
            for sid_ in added:
                ctx.steptime[sid_] = 0
            try:
                with _Watchdog():
                    want = {}
                    for c in scn["conns"]:
                        if c["sa"]:
                            sfx_ = scn.get("eid_suffix") or ""
                            se_ = c["se"][:-len(sfx_)] if sfx_ and c["se"].endswith(sfx_) else c["se"]
                            e_ = ents[c["src"]][int(se_[1:])]
                            want.setdefault(e_, set()).add(c["sa"])
                    for e_, attrs in want.items():
                        world.get_data([e_], *sorted(attrs))
            except BaseException as e:  # noqa: BLE001
                ctx.outcome = dict(classify(e), phase="build")
                return ctx
            finally:
                del ctx.trace[n0:]
                for sid_ in added:
                    ctx.steptime.pop(sid_, None)
        if internal_trace:
            from . import internal

            internal.attach(ctx)
            try:
                from . import wake

                wake.attach(ctx)
            except Exception:  # noqa: BLE001  (the wake-up layer is optional: unavailable = drift)
                ctx.wake = None
        kw = dict(until=scn["until"], print_progress=False, lazy_stepping=scn["lazy"])
        kw.update(run_kw or {})
        restore = []
        if scn.get("rt") or scn.get("capture_log"):
            from loguru import logger
            import mosaik.scheduler as _sched

            rt = scn.get("rt") or {}
            if rt:
                kw["rt_factor"] = rt["rt_factor"]
                kw["rt_strict"] = bool(rt.get("strict"))
                reads = [0]
                exact = bool(rt.get("exact_clock"))
                step_s = rt["rt_factor"] * rt.get("time_resolution", 1.0)

                def clock():
                    # a real perf_counter is strictly increasing between reads
                    reads[0] += 1
                    return loop.time() + (0 if exact else reads[0] * step_s * 2.0 ** -30)

                saved = _sched.perf_counter
                _sched.perf_counter = clock
                restore.append(lambda: setattr(_sched, "perf_counter", saved))
                ctx.rt_t0 = loop.time()
                # external events: set_event(t) called from outside a step at a chosen wall-clock time (at = eighths of a step)
                for x in rt.get("external", []):
                    def fire(x=x):
                        pr = ctx.proxies.get(x["sid"])
                        if pr is not None and not loop.is_closed():
                            loop.create_task(pr._callback(("set_event", x["t"]), ext=True), name=f"ext-{x['sid']}")

                    loop.call_at(ctx.rt_t0 + x["at"] * step_s / 8.0, fire)

            def sink(message):
                text = message.record["message"]
                low = text.lower()
                pending_event = getattr(ctx, "in_set_event", None)
                if isinstance(pending_event, int) and pending_event >= scn["until"]:
                    low = "ignored " + low  # the warning about an event at or after the end, recognised by its context
                cat = ("too_slow" if "too slow" in low or ("slow" in low and "real" in low) or "behind time" in low
                       else "event_after_end" if ("after" in low and ("end" in low or "until" in low)) or "ignored" in low or "will be ignored" in low
                       else "other")
                ev = {"k": "LOG", "cat": cat, "w": ctx.ticks() if ctx.rt is not None else 0}
                if cat == "too_slow":
                    # how far behind, in ticks of 1/1024 s (0 = only the strictly increasing clock reads), from the message's own arguments
                    d = message.record["extra"].get("delta")
                    ev["late"] = int(d * ctx.TICKS_PER_SECOND) if isinstance(d, (int, float)) else -1
                ctx.record(ev)

            hid = logger.add(sink, level="WARNING", format="{message}")
            restore.append(lambda: logger.remove(hid))
        if not scn.get("rt") and all((x.get("transport") or scn.get("transport") or "async") in ("async", "local") for x in scn["sims"]):
            # half of the executions: simulators that take longer to answer than any timer the scheduler sets while it waits
            # (only during the run phase, not in real-time mode, not over the stream transport whose stop() uses a timeout)
            nfired = [0]

            def timers_first():
                if ctx.pending and getattr(ctx, "in_run", False) and hash_parity(ctx) and nfired[0] < 50:
                    nfired[0] += 1
                    return True
                return False

            loop.timers_first = timers_first
        try:
            with _Watchdog():
                ctx.in_run = True
                try:
                    world.run(**kw)
                finally:
                    ctx.in_run = False
            ctx.outcome = {"r": "ok", "msg": "", "phase": "run"}
        except BaseException as e:  # noqa: BLE001
            ctx.outcome = dict(classify(e), phase="run")
        finally:
            for fn in restore:
                fn()
    finally:
        ctx.loop_closed = loop.is_closed()
        try:
            if world is not None and not loop.is_closed():
                # after a deadlock/livelock verdict World.run()'s own shutdown may not have completed
                ctx.pending.clear()
                try:
                    loop.controller = lambda q: False
                    pend = [t for t in asyncio.all_tasks(loop) if not t.done()]
                    ctx.pending_tasks = len(pend)
                    for t in pend:
                        t.cancel()
                    loop.run_until_complete(asyncio.gather(*pend, return_exceptions=True))
                finally:
                    loop.close()
        except BaseException:  # noqa: BLE001
            pass
        asyncio.set_event_loop(None)
        CTX = None
    if scn.get("debug") and world is not None and ctx.outcome.get("phase") == "run":
        try:
            eg = world.execution_graph
            nodes = sorted([n[0], list(n[1].tiers)] for n in eg.nodes)
            edges = sorted([a[0], list(a[1].tiers), b[0], list(b[1].tiers)] for a, b in eg.edges)
            ctx.record({"k": "EG", "r": ctx.outcome["r"], "nodes": nodes, "edges": edges})
        except Exception as e:  # noqa: BLE001  the graph is an optional observation
            ctx.eg_error = repr(e)
    pend = getattr(loop, "pending_at_close", None)
    ev = {"k": "END", "r": ctx.outcome["r"], "cat": categorize(ctx.outcome, scn), "names": named_sims(scn, ctx.outcome["msg"]),
          "closed": bool(ctx.loop_closed), "pend": len(pend or []) if ctx.loop_closed else getattr(ctx, "pending_tasks", 0),
          "pendnames": sorted(set(n.split("-")[0] for n in (pend or []))),
          "msg": ctx.outcome["msg"][:200], "nstops": sum(1 for e in ctx.trace if e["k"] == "STOP")}
    ctx.record(ev)
    return ctx

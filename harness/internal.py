"""Internal layer of the trace: the projected scheduler state after every atomic section
of ``sim_process`` (for SchedTrace.tla / drift detection).

Obtained OUT-OF-TREE: the module-level functions of ``mosaik.scheduler`` that
``sim_process`` looks up at call time are wrapped (the technique ``mosaik._debug`` uses);
nothing in /repo is edited.  The wrappers are installed only when the guard
``MOSAIK_VERIF_TRACE`` is set (the checks set it themselves) and only add logging.
"""
from __future__ import annotations

import asyncio
import os

import mosaik._debug  # noqa: F401  first: its saved originals must be the shipped functions
from mosaik import scheduler

GUARD = "MOSAIK_VERIF_TRACE"
_installed = False
_orig = {}
STATE = {"ctx": None, "broken": None}


def tt(x):
    return [] if x is None else list(x.tiers)


def snap(world):
    sims = world.sims
    out = {
        "progress": {sid: tt(s.progress.time) for sid, s in sims.items()},
        "nexts": {sid: sorted(tt(x) for x in s.next_steps) for sid, s in sims.items()},
        "cur": {sid: tt(s.current_step) for sid, s in sims.items()},
        "last": {sid: s.last_step.time for sid, s in sims.items()},
        "cacheT": {sid: sorted(s.outputs) if s.outputs is not None else [] for sid, s in sims.items()},
        "cacheV": {sid: sorted([t, eid, a, "None" if v is None else str(v)] for t, d in (s.outputs or {}).items()
                               for eid, attrs in d.items() if isinstance(attrs, dict) for a, v in attrs.items())
                   for sid, s in sims.items()},
        "buf": {sid: sorted([e[0], e[2].split(".")[0], e[2].split(".", 1)[1], e[3], e[4], str(e[5])] for e in s.timed_input_buffer.input_queue)
                for sid, s in sims.items()},
        "pmem": {sid: sorted([de, da, src.split(".")[0], src.split(".", 1)[1], "None" if v is None else str(v)]
                             for de, attrs in s.persistent_inputs.items() for da, srcs in attrs.items() for src, v in srcs.items())
                 for sid, s in sims.items()},
    }
    return out


def _broken(why):
    """The code no longer has the shape the wrappers were written for (a renamed function, a changed
    signature or attribute): stop recording.  The internal conformance is then reported as unavailable
    (drift), it never disturbs the execution and never produces a verdict."""
    STATE["broken"] = STATE.get("broken") or why
    ctx = STATE["ctx"]
    if ctx is not None:
        ctx.internal = None


def _log(rec):
    ctx = STATE["ctx"]
    if ctx is not None and ctx.internal is not None:
        try:
            rec["post"] = snap(ctx.world)
        except Exception as e:  # noqa: BLE001
            _broken(f"snapshot failed: {type(e).__name__}: {e}")
            return
        ctx.internal.append(rec)


def install():
    global _installed
    if _installed or not os.environ.get(GUARD):
        return _installed
    _installed = True
    st = {"starting": set(), "cursim": None, "reply": {}, "deferred": None}

    def guarded(f):
        def g(*a):
            if STATE.get("broken"):
                return
            try:
                f(*a)
            except Exception as e:  # noqa: BLE001  a hook must never disturb the scheduler
                _broken(f"hook {f.__name__} failed: {type(e).__name__}: {e}")
        return g

    def wrap(name, after, before=None):
        orig = getattr(scheduler, name)
        _orig[name] = orig
        after = guarded(after)
        before = guarded(before) if before else None
        if asyncio.iscoroutinefunction(orig):
            async def w(*a, **k):
                if before:
                    before(a)
                try:
                    r = await orig(*a, **k)
                except Exception as e:  # noqa: BLE001  (not GeneratorExit / CancelledError: task clean-up is no section)
                    after(a, None, e)
                    raise
                after(a, r, None)
                return r
        else:
            def w(*a, **k):
                if before:
                    before(a)
                try:
                    r = orig(*a, **k)
                except Exception as e:  # noqa: BLE001  (not GeneratorExit / CancelledError: task clean-up is no section)
                    after(a, None, e)
                    raise
                after(a, r, None)
                return r
        w.__name__ = name
        setattr(scheduler, name, w)

    def before_process(a):
        st["starting"].add(a[1].sid)

    def after_process(a, r, e):
        # the process of a simulator ended with an exception (e.g. one of the guards of sim_process, progress moving backwards)
        if e is not None:
            _log({"a": "Failed", "s": a[1].sid, "err": type(e).__name__})

    def after_adv(a, r, e):
        sim = a[0]
        if e is None and sim.sid in st["starting"]:
            st["starting"].discard(sim.sid)
            _log({"a": "Start", "s": sim.sid})

    def after_settled(a, r, e):
        if e is None:
            _log({"a": "Settle" if r else "Finish", "s": a[0].sid})

    def after_maxadv(a, r, e):
        if e is None:
            _log({"a": "BeginStep", "s": a[1].sid, "m": r})

    def after_step(a, r, e):
        sim = a[1]
        ctx = STATE["ctx"]
        rep = ctx.last_reply.get((sim.sid, "step")) if ctx is not None else None
        nk, n = ("none", 0) if rep is None else (("int", rep) if isinstance(rep, int) and not isinstance(rep, bool) else ("bad", 0))
        rec = {"a": "StepReturn", "s": sim.sid, "nk": nk, "n": n, "err": type(e).__name__ if e else ""}
        if e is not None or sim.output_request:
            _log(rec)
        else:
            st["deferred"] = rec  # the post-step section runs without yielding: one action of (S)

    def after_outputs(a, r, e):
        sim = a[1]
        st["cursim"] = sim.sid
        if e is not None:
            _log({"a": "DataReturn", "s": sim.sid, "attrs": [], "dt": -1, "err": type(e).__name__})

    def emit_post(world):
        ctx = STATE["ctx"]
        sid = st["cursim"]
        if st["deferred"] is not None and st["deferred"]["s"] == sid:
            rec, st["deferred"] = st["deferred"], None
            _log(rec)
            return
        d = (ctx.last_reply.get((sid, "get_data")) if ctx is not None else None) or {}
        t = ctx.steptime.get(sid, 0) if ctx is not None else 0
        attrs = sorted([eid, at] for eid, av in d.items() if eid != "time" and isinstance(av, dict) for at in av)
        _log({"a": "DataReturn", "s": sid, "attrs": attrs, "dt": d.get("time", t) - t if isinstance(d.get("time", t), int) else 0, "err": ""})

    def after_avg(a, r, e):
        ctx = STATE["ctx"]
        if e is None and ctx is not None and not ctx.world.use_cache:
            emit_post(ctx.world)

    def after_prune(a, r, e):
        ctx = STATE["ctx"]
        if e is None and ctx is not None and ctx.world.use_cache:
            emit_post(ctx.world)

    names = ("sim_process", "advance_progress", "next_step_settled", "get_max_advance", "step", "get_outputs",
             "get_avg_progress", "prune_dataflow_cache")
    missing = [n for n in names if not callable(getattr(scheduler, n, None))]
    if missing:
        STATE["broken"] = "mosaik.scheduler has no function(s) " + ", ".join(missing)
        return False
    wrap("sim_process", after_process, before_process)
    wrap("advance_progress", after_adv)
    wrap("next_step_settled", after_settled)
    wrap("get_max_advance", after_maxadv)
    wrap("step", after_step)
    wrap("get_outputs", after_outputs)
    wrap("get_avg_progress", after_avg)
    wrap("prune_dataflow_cache", after_prune)
    return True


def attach(ctx):
    """Start recording internal sections for this execution."""
    if install() and not STATE.get("broken"):
        ctx.internal = []
        STATE["ctx"] = ctx

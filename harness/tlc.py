"""Running TLC and reading what it printed."""
from __future__ import annotations

import json
import os
import re
import shutil
import subprocess
import tempfile
import time

from . import VERIF

SPEC = os.path.join(VERIF, "spec")
JAR = "/opt/veriftools/tla/tla2tools.jar"
DEPS = "/opt/veriftools/tla/CommunityModules-deps.jar"


class TLCError(RuntimeError):
    pass


def scratch(prefix="mosaik-verif.") -> str:
    return tempfile.mkdtemp(prefix=prefix, dir=os.environ.get("VERIF_TMP", "/tmp"))


def run_tlc(module, cfg=None, workdir=None, env=None, workers=1, timeout=900, extra=(), heap="2g", depth_first=False):
    """Run TLC on spec/<module>.tla (or workdir/<module>.tla). Returns (stdout, seconds)."""
    own = workdir is None
    wd = workdir or scratch()
    try:
        meta = os.path.join(wd, "meta")
        os.makedirs(meta, exist_ok=True)
        e = dict(os.environ)
        e.update(env or {})
        jopts = []
        if depth_first:
            jopts.append("-Dtlc2.tool.queue.IStateQueue=StateDeque")
        cmd = ["java", f"-Xmx{heap}", "-Xss48m", "-XX:+UseParallelGC", f"-XX:ActiveProcessorCount={max(2, workers)}", "-XX:TieredStopAtLevel=1" if workers == 1 else "-XX:+TieredCompilation", *jopts, "-cp", f"{JAR}:{DEPS}", "tlc2.TLC",
               "-workers", str(workers), "-metadir", meta, "-noGenerateSpecTE", "-nowarning"]
        if cfg:
            cmd += ["-config", cfg]
        cmd += list(extra)
        cmd.append(module)
        t0 = time.time()
        cwd = wd if os.path.exists(os.path.join(wd, module + ".tla")) or os.path.exists(os.path.join(wd, module)) else SPEC
        # TLC resolves EXTENDS relative to the spec's directory; generated modules in wd need spec/ on the path
        if cwd == wd:
            e["JAVA_TOOL_OPTIONS"] = (e.get("JAVA_TOOL_OPTIONS", "") + f" -DTLA-Library={SPEC}").strip()
        try:
            p = subprocess.run(cmd, cwd=cwd, env=e, capture_output=True, text=True, timeout=timeout)
        except subprocess.TimeoutExpired as ex:
            raise TLCError(f"TLC timeout after {timeout}s on {module}") from ex
        out = p.stdout + p.stderr
        return out, time.time() - t0, p.returncode
    finally:
        if own:
            shutil.rmtree(wd, ignore_errors=True)


_STATS = re.compile(r"(\d+) states generated, (\d+) distinct states found")


def stats(out: str) -> dict:
    m = None
    for m in _STATS.finditer(out):
        pass
    if not m:
        return {"generated": 0, "distinct": 0}
    return {"generated": int(m.group(1)), "distinct": int(m.group(2))}


def tuples(out: str, tag: str):
    """Yield the text of every printed tuple that starts with <<"tag", ... (bracket matching,
    because TLC wraps long values over several lines)."""
    pat = re.compile(r'<<\s*"' + re.escape(tag) + '"')
    i = 0
    n = len(out)
    while True:
        m = pat.search(out, i)
        if not m:
            return
        j = m.start()
        depth = 0
        k = j
        instr = False
        while k < n:
            ch = out[k]
            if instr:
                if ch == "\\":
                    k += 1
                elif ch == '"':
                    instr = False
            elif ch == '"':
                instr = True
            elif out.startswith("<<", k):
                depth += 1
                k += 1
            elif out.startswith(">>", k):
                depth -= 1
                k += 1
                if depth == 0:
                    break
            k += 1
        yield re.sub(r'\s+>>', '>>', re.sub(r'<<\s+', '<<', " ".join(out[j:k + 1].split())))  # (TLC wraps long tuples: "<< a,\n b >>")
        i = k + 1


def run_tlaps(module, deps=(), timeout=600):
    """Check the proofs of spec/<module>.tla with the TLA+ proof system (tlapm).  A proof is about the SPECIFICATION; the result goes
    into the evidence, a failure is reported as a MODEL-PROOF line and never changes a check's exit code."""
    import re as _re

    if not shutil.which("tlapm"):
        return {"ran": False, "why": "tlapm not on PATH"}
    wd = scratch()
    try:
        for f in (module + ".tla",) + tuple(deps):
            shutil.copy(os.path.join(SPEC, f), wd)
        t0 = time.time()
        try:
            p = subprocess.run(["tlapm", module + ".tla"], cwd=wd, capture_output=True, text=True, timeout=timeout)
            out = p.stdout + p.stderr
        except subprocess.TimeoutExpired:
            out = "timeout"
        m = _re.search(r"All (\d+) obligations proved", out)
        res = {"ran": True, "module": module, "all_proved": bool(m), "obligations": int(m.group(1)) if m else 0, "secs": round(time.time() - t0, 1)}
        if not m:
            res["tail"] = out[-300:]
            print(f"MODEL-PROOF tlapm did not prove every obligation of {module} (specification only; not a verdict)")
        return res
    finally:
        shutil.rmtree(wd, ignore_errors=True)

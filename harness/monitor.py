"""code -> spec: judge recorded executions with the TLA+ reference semantics (RefTrace.tla)."""
from __future__ import annotations

import concurrent.futures as cf
import json
import os
import re
import shutil

from . import scn as S
from . import tlc

TRACE_KINDS = ("SB", "SE", "DE", "CB", "END", "STOP", "FAULT", "LOG", "EG", "SETUP", "DB")


def project(trace):
    """The part of a recorded trace that the reference semantics reads."""
    out = []
    for e in trace:
        if e["k"] not in TRACE_KINDS:
            continue
        e = dict(e)
        e.pop("msg", None)
        e.pop("nstops", None)
        if e["k"] == "DB":
            e.pop("req", None)  # (the attribute lists of a get_data request are compared by the C11 check only)
        out.append(e)
    return out


def batch_item(ident, scn, trace):
    sc = S.tla_scn(scn)
    # the request-protocol clauses (PR_*) apply when the recorder of every transport logged setup_done
    sc["proto"] = any(e["k"] == "SETUP" for e in trace)
    return {"id": ident, "scn": sc, "ev": project(trace)}


_V = re.compile(r'<<"V", (\d+), (\d+), "([A-Za-z0-9_]+)">>')
_T = re.compile(r'<<"T", (\d+), (\d+), (\d+), (TRUE|FALSE)>>')
_D = re.compile(r'<<"D", (\d+), (\d+), "([A-Za-z0-9_]+)", (.*)>>$', re.S)


def judge_batch(items, timeout=1800, keep=None):
    """Run RefTrace over one batch. Returns (verdicts, info); verdicts[i] is
    {"done": bool, "dead": bool, "viol": [(l, clause)], "detail": str|None} for items[i]."""
    wd = tlc.scratch()
    try:
        path = os.path.join(wd, "batch.json")
        with open(path, "w") as f:
            json.dump(items, f)
        out, secs, rc = tlc.run_tlc("RefTrace", cfg="RefTrace.cfg", env={"TRACE_FILE": path}, workers=1, timeout=timeout)
        if keep:
            shutil.copy(path, keep)
    finally:
        shutil.rmtree(wd, ignore_errors=True)
    verdicts = [{"done": False, "dead": False, "viol": [], "detail": None, "n": 0} for _ in items]
    for m in _V.finditer(out):
        verdicts[int(m.group(1)) - 1]["viol"].append((int(m.group(2)), m.group(3)))
    for m in _T.finditer(out):
        v = verdicts[int(m.group(1)) - 1]
        v["done"] = True
        v["n"] = int(m.group(2))
        v["dead"] = m.group(4) == "TRUE"
    for txt in tlc.tuples(out, "D"):
        m = _D.match(txt)
        if m:
            verdicts[int(m.group(1)) - 1]["detail"] = m.group(4)[:1500]
    st = tlc.stats(out)
    missing = [i for i, v in enumerate(verdicts) if not v["done"]]
    if missing:
        tail = "\n".join(out.splitlines()[-40:])
        raise tlc.TLCError(f"RefTrace did not finish {len(missing)} of {len(items)} traces (first: {missing[0]})\n{tail}")
    return verdicts, {"states": st["distinct"], "generated": st["generated"], "secs": secs}


def judge(items, jobs=None, chunk=400, timeout=1800):
    """Judge many executions, in parallel TLC processes."""
    if not items:
        return [], {"states": 0, "generated": 0, "secs": 0.0, "batches": 0}
    jobs = jobs or min(16, os.cpu_count() or 4)
    chunks = [items[i:i + chunk] for i in range(0, len(items), chunk)]
    verdicts = []
    info = {"states": 0, "generated": 0, "secs": 0.0, "batches": len(chunks)}
    with cf.ThreadPoolExecutor(max_workers=jobs) as ex:
        for vs, inf in ex.map(lambda c: judge_batch(c, timeout=timeout), chunks):
            verdicts.extend(vs)
            for k in ("states", "generated", "secs"):
                info[k] += inf[k]
    return verdicts, info

"""Wake-up layer of the internal trace: every call of ``Progress._add_trigger`` (has_reached /
has_passed) and ``Progress.set`` of a real execution, with its outcome, for ProgressTrace.tla.

OUT-OF-TREE like harness/internal.py: the two methods of ``mosaik.progress.Progress`` are wrapped at
class level when the guard ``MOSAIK_VERIF_TRACE`` is set; the wrappers only add logging.  If the class
no longer has the expected shape the recording stops (reported as drift, never a verdict)."""
from __future__ import annotations

import os

from mosaik import progress as _progress

GUARD = "MOSAIK_VERIF_TRACE"
_installed = False
STATE = {"ctx": None, "broken": None, "owner": {}, "ids": {}, "n": 0}
MAX_EVENTS = 1500  # (per execution; longer ones are not validated at this layer)


def tt(x):
    return list(x.tiers)


def _broken(why):
    STATE["broken"] = STATE.get("broken") or why
    ctx = STATE["ctx"]
    if ctx is not None:
        ctx.wake = None


def _log(rec):
    ctx = STATE["ctx"]
    if ctx is not None and ctx.wake is not None:
        if len(ctx.wake) >= MAX_EVENTS:
            ctx.wake_truncated = True
            return
        ctx.wake.append(rec)


def install():
    global _installed
    if _installed or not os.environ.get(GUARD):
        return _installed
    P = getattr(_progress, "Progress", None)
    if P is None or not callable(getattr(P, "set", None)) or not callable(getattr(P, "_add_trigger", None)):
        STATE["broken"] = "mosaik.progress.Progress has no set / _add_trigger"
        return False
    _installed = True
    orig_set, orig_add = P.set, P._add_trigger

    def active(self):
        return STATE["ctx"] is not None and STATE["ctx"].wake is not None and not STATE.get("broken") and id(self) in STATE["owner"]

    def set_w(self, time):
        if not active(self):
            return orig_set(self, time)
        try:
            ids = STATE["ids"]
            pre = [(ids.get(id(f)), f) for _, f in self._futures]
            canc = sorted(n for n, f in pre if n is not None and f.cancelled())
        except Exception as e:  # noqa: BLE001
            _broken(f"set hook failed: {type(e).__name__}: {e}")
            return orig_set(self, time)
        back = False
        try:
            return orig_set(self, time)
        except AssertionError:
            back = True
            raise
        finally:
            try:
                left_f = {id(f) for _, f in self._futures}
                left = sorted(n for n, f in pre if n is not None and id(f) in left_f)
                fired = sorted([n, tt(f.result())] for n, f in pre
                               if n is not None and id(f) not in left_f and f.done() and not f.cancelled())
                _log({"a": "Set", "o": STATE["owner"][id(self)], "t": tt(time), "back": back, "cancelled": canc, "fired": fired, "left": left})
            except Exception as e:  # noqa: BLE001
                _broken(f"set hook failed: {type(e).__name__}: {e}")

    async def add_w(self, target, shift, needs_to_pass):
        if not active(self):
            return await orig_add(self, target, shift, needs_to_pass)
        rec = None
        try:
            STATE["n"] += 1
            n = STATE["n"]
            if shift is None:
                k = len(self.time)
                sh = {"t": [0] * k, "c": k, "p": k}
            else:
                sh = {"t": list(shift.tiers), "c": shift.cutoff, "p": shift.pre_length}
            rec = {"a": "Add", "o": STATE["owner"][id(self)], "id": n, "tg": tt(target), "sh": sh, "ps": bool(needs_to_pass), "imm": True, "v": []}
            before = len(self._futures)
            STATE["pending"] = (self, rec, before)
        except Exception as e:  # noqa: BLE001
            _broken(f"add hook failed: {type(e).__name__}: {e}")
            return await orig_add(self, target, shift, needs_to_pass)
        r = await orig_add(self, target, shift, needs_to_pass)
        try:
            if rec.get("logged"):
                _log({"a": "Ret", "o": rec["o"], "id": rec["id"], "v": tt(r)})
            else:
                STATE["pending"] = None
                rec["v"] = tt(r)
                _log(rec)
        except Exception as e:  # noqa: BLE001
            _broken(f"add hook failed: {type(e).__name__}: {e}")
        return r

    class _Futures(list):
        """Progress._futures with a logging append: the moment a call is parked."""

        def append(self, item):
            list.append(self, item)
            try:
                pend = STATE.get("pending")
                if pend is not None and pend[0]._futures is self:
                    _, rec, _ = pend
                    STATE["pending"] = None
                    STATE["ids"][id(item[1])] = rec["id"]
                    STATE["keep"].append(item[1])  # (keeps id() unique for the execution)
                    rec["imm"] = False
                    rec["logged"] = True
                    _log({k: v for k, v in rec.items() if k != "logged"})
            except Exception as e:  # noqa: BLE001
                _broken(f"append hook failed: {type(e).__name__}: {e}")

    STATE["Futures"] = _Futures
    P.set = set_w
    P._add_trigger = add_w
    return True


def attach(ctx):
    """Start recording the wake-up layer for this execution (after the World is built, before run())."""
    ctx.wake = None
    ctx.wake_truncated = False
    if not install() or STATE.get("broken"):
        return
    try:
        STATE.update(owner={}, ids={}, n=0, pending=None, keep=[])
        init = {}
        for sid, sim in ctx.world.sims.items():
            pr = sim.progress
            if not isinstance(pr._futures, list) or pr._futures:
                raise TypeError("Progress._futures is not an empty list before run()")
            pr._futures = STATE["Futures"]()
            STATE["owner"][id(pr)] = sid
            init[sid] = tt(pr.time)
        ctx.wake_init = init
        ctx.wake = []
        STATE["ctx"] = ctx
    except Exception as e:  # noqa: BLE001
        _broken(f"attach failed: {type(e).__name__}: {e}")

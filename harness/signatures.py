"""Reviewed predicates that identify *one specific* known finding each.

``pred(finding, **params) -> bool`` answers "is this violation exactly that finding?".
A violation is downgraded to KNOWN-FINDING only if an *open* entry of
known_findings.jsonl with the same property and clause names a predicate here that
returns True; everything else stays a VIOLATION.
"""


def clause_only(f, **kw):
    """The clause name alone identifies the finding (the TLA+ monitor already evaluated
    the signature and encoded it in the clause name, e.g. ``..__sig_<name>``)."""
    return True


def _reach(scn):
    sids = [s["sid"] for s in scn["sims"]]
    adj = {s: set() for s in sids}
    for c in scn["conns"]:
        adj[c["src"]].add(c["dst"])
    reach = {s: set(adj[s]) for s in sids}
    changed = True
    while changed:
        changed = False
        for s in sids:
            new = set().union(*[reach[x] for x in reach[s]]) if reach[s] else set()
            if not new <= reach[s]:
                reach[s] |= new
                changed = True
    return reach


def lazy_group_reentry_deadlock(f, **kw):
    """D21: deadlock that exists only with lazy_stepping=True, in a scenario where a data path
    leaves a group that contains a weak connection and re-enters it (the lazy wait for the
    re-entered member closes a wait cycle the cycle check does not know about)."""
    import copy

    from . import explore

    case, res = f.case, f.result
    if not case or not res:
        return False
    scn = case["scn"]
    if res["outcome"]["r"] != "deadlock" or not scn.get("lazy", True):
        return False
    gp = {s["sid"]: tuple(s["gpath"]) for s in scn["sims"]}
    reach = _reach(scn)
    topo = False
    for w in scn["conns"]:
        if not w["weak"]:
            continue
        a, b = gp[w["src"]], gp[w["dst"]]
        k = 0
        while k < len(a) and k < len(b) and a[k] == b[k]:
            k += 1
        grp = a[:k]
        if not grp:
            continue
        members = {s for s, g in gp.items() if g[:k] == grp}
        for p in members:
            for z in reach[p] - members:
                if reach[z] & members:
                    topo = True
    if not topo:
        return False
    for pol in ({"kind": "fifo"}, dict(case.get("policy") or {})):
        c2 = copy.deepcopy(case)
        c2["scn"]["lazy"] = False
        c2["policy"] = pol
        if explore.run_case(c2)["outcome"]["r"] == "deadlock":
            return False
    return True


def mixed_position_equal_tier(f, **kw):
    """D22: TieredInterval.__lt__ orders two delays although they are pointwise incomparable:
    at a position where one interval ADDS and the other SETS the tier the two tier values are
    equal, and a LATER tier decides the order.  (The adding interval arrives later for
    positive departure sub-steps, whatever the later tiers say.)"""
    if f.clause not in ("C08_orders_pointwise_incomparable", "C08_smaller_delay_arrives_later"):
        return False
    a, b = f.extra.get("a"), f.extra.get("b")
    if not a or not b or a["c"] == b["c"]:
        return False
    lo, hi = min(a["c"], b["c"]), max(a["c"], b["c"])
    diff = [i for i, (x, y) in enumerate(zip(a["t"], b["t"])) if x != y]
    if not diff:
        return False
    first = diff[0]
    return any(a["t"][i] == b["t"][i] and i < first for i in range(lo, hi))


def incomparable_assertion(f, **kw):
    """D3: the min-delay closures (ensure_no_dataflow_cycles / cache_triggering_ancestors) keep ONE
    minimal delay per simulator pair; when two paths between a pair have pointwise-incomparable
    delays (a path that leaves and re-enters a group vs. a direct path) TieredInterval.__lt__
    raises AssertionError '... are incomparable' instead of the scenario being judged."""
    row = f.extra.get("row") if f.extra else None
    if row is not None:
        return row.get("out") == "other" and "AssertionError" in row.get("msg", "") and "are incomparable" in row.get("msg", "")
    out = (f.result or {}).get("outcome") or {}
    return out.get("r") == "AssertionError" and "are incomparable" in out.get("msg", "")

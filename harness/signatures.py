"""Reviewed predicates that identify *one specific* known finding each.

``pred(finding, **params) -> bool`` answers "is this violation exactly that finding?".
A violation is downgraded to KNOWN-FINDING only if an *open* entry of
known_findings.jsonl with the same property and clause names a predicate here that
returns True; everything else stays a VIOLATION.
"""


def clause_only(f, **kw):
    """The clause name alone identifies the finding (the TLA+ monitor already evaluated
    the signature and encoded it in the clause name, e.g. ``..__sig_<name>``)."""
    return True

"""Reviewed predicates that identify *one specific* known finding each.

``pred(finding, **params) -> bool`` answers "is this violation exactly that finding?".
A violation is downgraded to KNOWN-FINDING only if an *open* entry of
known_findings.jsonl with the same property and clause names a predicate here that
returns True; everything else stays a VIOLATION.
"""


def clause_only(f, **kw):
    """The clause name alone identifies the finding (the TLA+ monitor already evaluated
    the signature and encoded it in the clause name, e.g. ``..__sig_<name>``)."""
    return True


def _reach(scn):
    sids = [s["sid"] for s in scn["sims"]]
    adj = {s: set() for s in sids}
    for c in scn["conns"]:
        adj[c["src"]].add(c["dst"])
    reach = {s: set(adj[s]) for s in sids}
    changed = True
    while changed:
        changed = False
        for s in sids:
            new = set().union(*[reach[x] for x in reach[s]]) if reach[s] else set()
            if not new <= reach[s]:
                reach[s] |= new
                changed = True
    return reach


def lazy_group_reentry_deadlock(f, **kw):
    """D21: deadlock that exists only with lazy_stepping=True, in a scenario where a data path
    leaves a group that contains a weak connection and re-enters it (the lazy wait for the
    re-entered member closes a wait cycle the cycle check does not know about)."""
    import copy

    from . import explore

    case, res = f.case, f.result
    if not case or not res:
        return False
    scn = case["scn"]
    if res["outcome"]["r"] != "deadlock" or not scn.get("lazy", True):
        return False
    gp = {s["sid"]: tuple(s["gpath"]) for s in scn["sims"]}
    reach = _reach(scn)
    topo = False
    for w in scn["conns"]:
        if not w["weak"]:
            continue
        a, b = gp[w["src"]], gp[w["dst"]]
        k = 0
        while k < len(a) and k < len(b) and a[k] == b[k]:
            k += 1
        grp = a[:k]
        if not grp:
            continue
        members = {s for s, g in gp.items() if g[:k] == grp}
        for p in members:
            for z in reach[p] - members:
                if reach[z] & members:
                    topo = True
    if not topo:
        return False
    for pol in ({"kind": "fifo"}, dict(case.get("policy") or {})):
        c2 = copy.deepcopy(case)
        c2["scn"]["lazy"] = False
        c2["policy"] = pol
        if explore.run_case(c2)["outcome"]["r"] == "deadlock":
            return False
    return True


def mixed_position_equal_tier(f, **kw):
    """D22: TieredInterval.__lt__ orders two delays although they are pointwise incomparable:
    at a position where one interval ADDS and the other SETS the tier the two tier values are
    equal, and a LATER tier decides the order.  (The adding interval arrives later for
    positive departure sub-steps, whatever the later tiers say.)"""
    if f.clause not in ("C08_orders_pointwise_incomparable", "C08_smaller_delay_arrives_later"):
        return False
    a, b = f.extra.get("a"), f.extra.get("b")
    if not a or not b or a["c"] == b["c"]:
        return False
    lo, hi = min(a["c"], b["c"]), max(a["c"], b["c"])
    diff = [i for i, (x, y) in enumerate(zip(a["t"], b["t"])) if x != y]
    if not diff:
        return False
    first = diff[0]
    return any(a["t"][i] == b["t"][i] and i < first for i in range(lo, hi))


def incomparable_assertion(f, **kw):
    """D3: the min-delay closures (ensure_no_dataflow_cycles / cache_triggering_ancestors) keep ONE
    minimal delay per simulator pair; when two paths between a pair have pointwise-incomparable
    delays (a path that leaves and re-enters a group vs. a direct path) TieredInterval.__lt__
    raises AssertionError '... are incomparable' instead of the scenario being judged."""
    row = f.extra.get("row") if f.extra else None
    if row is not None:
        return row.get("out") == "other" and "AssertionError" in row.get("msg", "") and "are incomparable" in row.get("msg", "")
    out = (f.result or {}).get("outcome") or {}
    return out.get("r") == "AssertionError" and "are incomparable" in out.get("msg", "")


def _slots(obs):
    return {(x["de"], x["da"], x["src"], x["se"]): x["val"] for x in (obs or {}).get("inp", [])}


def _diff_slots(f):
    d = (f.extra or {}).get("diff")
    if not d or d["canonical"] is None or d["variant"] is None or d["canonical"]["t"] != d["variant"]["t"]:
        return None
    a, b = _slots(d["canonical"]), _slots(d["variant"])
    return d["sim"], {k: (a.get(k), b.get(k)) for k in set(a) | set(b) if a.get(k) != b.get(k)}


def d16_schedule_dependent_visibility(f, **kw):
    """D16 as seen by C04: with simulators in groups, whether a value produced in the same integer
    time step is already visible depends on the execution order (the data plane ignores sub-steps).
    Signature: inputs (not step times) differ; neither run violates the integer-time data oracle; and
    either the reference monitor found one of the runs tiered-inconsistent-but-integer-consistent, or
    every differing slot is fed by a weak connection / a connection between different groups."""
    if f.clause != "C04_inputs_differ":
        return False
    ex = f.extra or {}
    if "C03_inputs" in ex.get("ref_clauses_variant", []) or "C03_inputs" in ex.get("ref_clauses_canonical", []):
        return False
    scn = f.case["scn"]
    gp = {s["sid"]: s["gpath"] for s in scn["sims"]}
    if not any(gp.values()):
        return False
    ds = _diff_slots(f)
    if not ds or not ds[1]:
        return False
    sig = "C03_inputs__sig_integer_time_data_plane"
    if sig in ex.get("ref_clauses_variant", []) or sig in ex.get("ref_clauses_canonical", []):
        return True  # the reference monitor itself found one run tiered-inconsistent but integer-consistent
    sim, slots = ds
    for (de, da, src, se) in slots:
        feeding = [c for c in scn["conns"] if c["dst"] == sim and c["src"] == src and c["da"] == da and c["de"] == de and c["se"] == se]
        if not feeding or not all(c["weak"] or gp[c["src"]] != gp[c["dst"]] for c in feeding):
            return False
    return True


def cache_initial_data_leak(f, **kw):
    """D20: cache=True stores initial data on the SOURCE side, so another connection of the same source
    attribute that declares no initial data receives it; with cache=False that slot holds the None
    placeholder.  Signature: runs differ in the cache flag; every differing slot has no declared
    initial data, one value is None and the other is the initial-data token of that source attribute."""
    if f.clause != "C04_inputs_differ":
        return False
    ex = f.extra or {}
    cache_v = f.case["scn"].get("cache", True)
    cache_c = (ex.get("canonical_flags") or {}).get("cache", True)
    if cache_v == cache_c:
        return False
    ds = _diff_slots(f)
    if not ds or not ds[1]:
        return False
    sim, slots = ds
    scn = f.case["scn"]
    for (de, da, src, se), (a, b) in slots.items():
        feeding = [c for c in scn["conns"] if c["dst"] == sim and c["src"] == src and c["da"] == da and c["de"] == de and c["se"] == se]
        if not feeding or any(c["init"] for c in feeding):
            return False
        vals = {a, b}
        if "None" not in vals:
            return False
        other = (vals - {"None"}).pop() if len(vals) == 2 else None
        from . import scn as _S

        # (the initial-data token of that source attribute / source entity, as the scenario declares it - entity ids may be decorated)
        if other is None or not any(other == _S.init_token({"src": src, "sa": c["sa"], "se": se}) for c in feeding):
            return False
    return True


def _fault_of(f):
    for e in ((f.result or {}).get("item") or {}).get("ev", []):
        if e["k"] == "FAULT":
            return e
    return None


def remote_dies_while_idle(f, **kw):
    """D11: a remote simulator whose connection ends while NO request is outstanding: the channel's
    receiver has already ended, so the next request is never answered and run() hangs (all other C14
    clauses of such a run are consequences of the hang)."""
    fl = _fault_of(f)
    return bool(fl) and fl["kind"] == "eof_idle" and (f.result["outcome"]["r"] == "deadlock")


def connection_reset(f, **kw):
    """D23: the connection of a remote simulator is RESET (read error, not a clean EOF): the channel's
    receiver dies without signalling the end of requests, RemoteProxy.stop() raises ConnectionResetError
    from World.shutdown() - the remaining simulators are not stopped and the loop is not closed."""
    fl = _fault_of(f)
    return bool(fl) and fl["kind"].startswith("reset")


def pending_tasks_after_failure(f, **kw):
    """D12: after a simulator failure run() ended (raised / returned after logging), the loop was
    closed, every simulator was stopped - but sim_process tasks (and their helper tasks) of the
    OTHER simulators were still pending at loop.close()."""
    if f.clause != "C14_pending_event_loop_work_left_behind":
        return False
    out = (f.result or {}).get("outcome") or {}
    if out.get("r") in ("deadlock", "livelock"):
        return False
    end = [e for e in f.result["item"]["ev"] if e["k"] == "END"]
    return bool(end) and end[-1].get("closed") is True and all(n.startswith(("Runner for", "Task")) for n in end[-1].get("pendnames", []))


def d28_cross_time_hops(f, **kw):
    """D28: the loop guard fired although fewer than max_loop_iterations steps began at that integer time, in an
    execution where a sub-step index can be carried from an EARLIER time step: a time-shifted connection between two
    simulators of one (non-root) group, or an output dated into the future that travels over a weak connection."""
    case, res = f.case, f.result
    if not case or not res:
        return False
    scn = case.get("scn") or res.get("scn") or {}
    sims = {s["sid"]: s for s in scn.get("sims", [])}
    if not sims:
        return False

    def common(a, b):
        k = 0
        ga, gb = sims[a].get("gpath", []), sims[b].get("gpath", [])
        while k < len(ga) and k < len(gb) and ga[k] == gb[k]:
            k += 1
        return k

    conns = scn.get("conns", [])
    if any(c.get("shift", 0) > 0 and common(c["src"], c["dst"]) >= 1 for c in conns):
        return True
    weak_src = {c["src"] for c in conns if c.get("weak")}
    t_of = {}
    for e in (res.get("item") or {}).get("ev", []):
        if e["k"] == "SB":
            t_of[e["s"]] = e["t"]
        elif e["k"] == "DE" and e["s"] in weak_src and e.get("otk") == "int" and e.get("ot", 0) > t_of.get(e["s"], 0):
            return True
    return False

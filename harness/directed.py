"""Directed cases: small hand-made (scenario, behaviour, schedule) triples.

Each one is the minimal demonstration of a defect that the exploration found on
the pinned tree (see known_findings.jsonl / DESIGN.md §7) or a topology that a
property statement singles out.  They run first in every scheduling check, so a
regression of a repaired defect is reported even if the random families of a
particular seed happen to miss it.
"""
from __future__ import annotations


def _tb(sids, n=6):
    return [[s, "step", k, k] for s in sids for k in range(1, n)]


def cases():
    out = []

    def add(name, props, scn, table=(), policy=None, behaviour=None):
        beh = {"kind": "table", "table": [list(x) for x in table]}
        beh.update(behaviour or {})
        out.append({"id": ["directed", name], "props": props, "scn": scn, "seed": 0, "behaviour": beh,
                    "policy": policy or {"kind": "fifo"}})

    # D10: two trigger connections with different delays between the same pair
    add("two_trigger_delays", ["C05", "C02", "C01"],
        {"sims": [{"sid": "Sa", "type": "hybrid"}, {"sid": "Sb", "type": "hybrid"}],
         "conns": [{"src": "Sa", "dst": "Sb", "sa": "e", "da": "ti"}, {"src": "Sa", "dst": "Sb", "sa": "e2", "da": "ti2", "shift": 1}],
         "until": 3},
        [["Sa", "step", 1, 1], ["Sa", "step", 2, 2], ["Sa", "step", 3, None],
         ["Sa", "get_data", 1, {"E0": {"e": "x1"}}], ["Sa", "get_data", 2, {"E0": {"e": "x2"}}], ["Sa", "get_data", 3, {"E0": {"e": "x3"}}]],
        behaviour={"ev_next": [None]})
    add("two_trigger_delays_rev", ["C05", "C02", "C01"],
        {"sims": [{"sid": "Sa", "type": "hybrid"}, {"sid": "Sb", "type": "hybrid"}],
         "conns": [{"src": "Sa", "dst": "Sb", "sa": "e2", "da": "ti2", "shift": 1}, {"src": "Sa", "dst": "Sb", "sa": "e", "da": "ti"}],
         "until": 3},
        [["Sa", "step", 1, 1], ["Sa", "step", 2, 2], ["Sa", "step", 3, None],
         ["Sa", "get_data", 1, {"E0": {"e": "x1"}}], ["Sa", "get_data", 2, {"E0": {"e": "x2"}}], ["Sa", "get_data", 3, {"E0": {"e": "x3"}}]],
        behaviour={"ev_next": [None]})
    # D4: unrelated simulator finishes while the triggering ancestor's step is in flight
    add("ancestor_in_flight", ["C05", "C02", "C07"],
        {"sims": [{"sid": "Sa", "type": "hybrid"}, {"sid": "Sb", "type": "event-based"}, {"sid": "Sc", "type": "time-based"}],
         "conns": [{"src": "Sa", "dst": "Sb", "sa": "e", "da": "ti"}], "until": 2, "lazy": False},
        [["Sa", "step", 1, None], ["Sa", "get_data", 1, {"E0": {"e": "x1"}}], ["Sc", "step", 1, 2]],
        policy={"kind": "script", "script": [["Sc", "step"], ["Sa", "step"], ["Sa", "get_data"]], "eager": False})
    # D4 (C07 form): max_advance while the ancestor is in flight
    add("max_advance_ancestor_in_flight", ["C07", "C05"],
        {"sims": [{"sid": "Sa", "type": "hybrid"}, {"sid": "Sb", "type": "hybrid"}, {"sid": "Sc", "type": "time-based"}],
         "conns": [{"src": "Sa", "dst": "Sb", "sa": "e", "da": "ti", "shift": 1}], "until": 4, "lazy": False},
        [["Sa", "step", 1, 2], ["Sa", "get_data", 1, {"E0": {"e": "x1"}}], ["Sb", "step", 1, 3], ["Sc", "step", 1, 5]],
        policy={"kind": "script", "script": [["Sc", "step"], ["Sb", "step"], ["Sa", "step"], ["Sa", "get_data"]], "eager": False})
    # D15: event announced for a time beyond the end while another ancestor is busy
    add("event_beyond_until", ["C05"],
        {"sims": [{"sid": "Sa", "type": "hybrid"}, {"sid": "Sb", "type": "event-based"}, {"sid": "Sc", "type": "hybrid"}],
         "conns": [{"src": "Sa", "dst": "Sb", "sa": "e", "da": "ti", "shift": 2}, {"src": "Sc", "dst": "Sb", "sa": "e", "da": "ti2"}],
         "until": 2, "lazy": False},
        [["Sa", "step", 1, 1], ["Sa", "get_data", 1, {"E0": {}}], ["Sa", "step", 2, None], ["Sa", "get_data", 2, {"E0": {"e": "x2"}}],
         ["Sc", "step", 1, 1], ["Sc", "get_data", 1, {"E0": {}}], ["Sc", "step", 2, None], ["Sc", "get_data", 2, {"E0": {}}]],
        policy={"kind": "script", "eager": False,
                "script": [["Sa", "step"], ["Sa", "get_data"], ["Sa", "step"], ["Sa", "get_data"],
                           ["Sc", "step"], ["Sc", "get_data"], ["Sc", "step"], ["Sc", "get_data"]]})
    # D17: measurement + event from one source entity, cache off
    add("event_and_measurement_nocache", ["C03", "C04"],
        {"sims": [{"sid": "Sa", "type": "hybrid"}, {"sid": "Sb", "type": "hybrid"}],
         "conns": [{"src": "Sa", "dst": "Sb", "sa": "p", "da": "i"}, {"src": "Sa", "dst": "Sb", "sa": "e", "da": "ti"}],
         "until": 3, "cache": False},
        [["Sa", "step", 1, 1], ["Sa", "get_data", 1, {"E0": {"p": "p1", "e": "ev1"}}], ["Sa", "step", 2, 2],
         ["Sa", "get_data", 2, {"E0": {"p": "p2"}}], ["Sa", "step", 3, None], ["Sa", "get_data", 3, {"E0": {"p": "p3"}}],
         ["Sb", "step", 1, 1], ["Sb", "step", 2, 2], ["Sb", "step", 3, None]])
    # D7: time_shifted=2 with the default cache
    add("shift2_cache", ["C03", "C04"],
        {"sims": [{"sid": "Sa", "type": "time-based"}, {"sid": "Sb", "type": "time-based"}],
         "conns": [{"src": "Sa", "dst": "Sb", "sa": "p", "da": "i"}, {"src": "Sb", "dst": "Sa", "sa": "p", "da": "i", "shift": 2, "init": True}],
         "until": 4},
        _tb(["Sa", "Sb"]))
    add("shift3_cache", ["C03", "C04"],
        {"sims": [{"sid": "Sa", "type": "time-based"}, {"sid": "Sb", "type": "time-based"}],
         "conns": [{"src": "Sa", "dst": "Sb", "sa": "p", "da": "i"}, {"src": "Sb", "dst": "Sa", "sa": "p", "da": "i", "shift": 3, "init": True}],
         "until": 5},
        _tb(["Sa", "Sb"], 7))
    # D6: slow producer, fast consumer, third simulator running ahead, lazy off
    add("slow_producer_nolazy", ["C03", "C04"],
        {"sims": [{"sid": "Sa", "type": "time-based"}, {"sid": "Sb", "type": "time-based"}, {"sid": "Sc", "type": "time-based"}],
         "conns": [{"src": "Sa", "dst": "Sb", "sa": "p", "da": "i"}], "until": 4, "lazy": False},
        [["Sa", "step", 1, 3], ["Sa", "step", 2, 6]] + _tb(["Sb", "Sc"]),
        policy={"kind": "script", "eager": False,
                "script": [["Sa", "step"], ["Sa", "get_data"], ["Sc", "step"], ["Sc", "step"], ["Sc", "step"], ["Sc", "step"]]})
    # D18: initial data of a weak and of a shifted connection from one source attribute
    add("weak_and_shift_init", ["C03", "C04"],
        {"sims": [{"sid": "Sa", "type": "time-based", "gpath": [1]}, {"sid": "Sb", "type": "time-based", "gpath": [1]},
                  {"sid": "Sc", "type": "time-based"}],
         "conns": [{"src": "Sb", "dst": "Sa", "sa": "p", "da": "i", "weak": True, "init": True},
                   {"src": "Sb", "dst": "Sc", "sa": "p", "da": "i", "shift": 1, "init": True}], "until": 3},
        _tb(["Sa", "Sb", "Sc"]))
    # D14: two shifted connections from one source simulator with different shifts
    add("two_shifts_init", ["C03", "C04", "C16"],
        {"sims": [{"sid": "Sa", "type": "time-based"}, {"sid": "Sb", "type": "time-based"}],
         "conns": [{"src": "Sb", "dst": "Sa", "sa": "p", "da": "i", "shift": 2, "init": True},
                   {"src": "Sb", "dst": "Sa", "sa": "p2", "da": "i2", "shift": 3, "init": True}], "until": 5},
        _tb(["Sa", "Sb"], 7))
    # D29: an in-process simulator that returns the same (in place updated) output dictionary in every step, cache on
    add("reused_output_dict", ["C03", "C04"],
        {"sims": [{"sid": "Sa", "type": "time-based", "reuse": True}, {"sid": "Sb", "type": "time-based", "reuse": True}],
         "transport": "local", "conns": [{"src": "Sa", "dst": "Sb", "sa": "p", "da": "i", "shift": 1, "init": True}], "until": 4},
        _tb(["Sa", "Sb"]))
    # ... the same behind mosaik's adapter for API version 2.2 (the simulator object is wrapped, not a LocalProxy any more)
    add("reused_output_dict_old_api", ["C03", "C04"],
        {"sims": [{"sid": "Sa", "type": "time-based", "reuse": True, "api": "2.2"}, {"sid": "Sb", "type": "time-based", "reuse": True}],
         "transport": "local", "conns": [{"src": "Sa", "dst": "Sb", "sa": "p", "da": "i", "shift": 1, "init": True}], "until": 4},
        _tb(["Sa", "Sb"]))
    # a destination that PULLS a persistent input (cache on) and also gets a time-shifted event connection with (unneeded,
    # but declared) initial data; the event is produced once: what the destination remembers must not depend on the cache
    add("event_with_init_and_pulled_input", ["C04"],
        {"sims": [{"sid": "Sa", "type": "time-based"}, {"sid": "Sb", "type": "hybrid"}, {"sid": "Sc", "type": "hybrid"}],
         "conns": [{"src": "Sa", "dst": "Sb", "sa": "p", "da": "i"},
                   {"src": "Sc", "dst": "Sb", "sa": "e", "da": "ti", "shift": 1, "init": True},
                   {"src": "Sb", "dst": "Sc", "sa": "p", "da": "i"}], "until": 5},
        [["Sc", "get_data", 1, {"E0": {"e": "ev1"}}], ["Sc", "get_data", 2, {"E0": {}}], ["Sc", "get_data", 3, {"E0": {}}],
         ["Sc", "get_data", 4, {"E0": {}}], ["Sc", "get_data", 5, {"E0": {}}]] + _tb(["Sa", "Sb", "Sc"], 7))
    # D31: debug mode with an agent that never steps (the debug hook made a node for its "last step" -1)
    add("debug_agent_never_steps", ["C04", "C05"],
        {"sims": [{"sid": "Sa", "type": "time-based"}, {"sid": "Sb", "type": "event-based"}, {"sid": "Sc", "type": "time-based"}],
         "conns": [{"src": "Sa", "dst": "Sb", "async": True}, {"src": "Sb", "dst": "Sc", "async": True}], "until": 5},
        _tb(["Sa", "Sc"], 7))
    # an in-process simulator that keeps ONE reply dictionary and writes the announced output time only when it changes:
    # two consecutive steps announce the same future time (mosaik must not strip 'time' from the simulator's dictionary)
    add("reused_reply_with_sticky_time", ["C02", "C04"],
        {"sims": [{"sid": "Sa", "type": "event-based", "initev": True, "reuse": True}, {"sid": "Sb", "type": "event-based", "reuse": True}],
         "transport": "local", "conns": [{"src": "Sa", "dst": "Sb", "sa": "e", "da": "ti"}], "until": 6},
        [["Sa", "step", 1, 1], ["Sa", "step", 2, 2], ["Sa", "step", 3, 3], ["Sa", "step", 4, None],
         ["Sa", "get_data", 1, {"E0": {"e": "a1"}, "time": 2}], ["Sa", "get_data", 2, {"E0": {"e": "a2"}, "time": 2}],
         ["Sa", "get_data", 3, {"E0": {"e": "a3"}, "time": 4}], ["Sa", "get_data", 4, {"E0": {"e": "a4"}, "time": 4}],
         ["Sb", "step", 1, None], ["Sb", "step", 2, None], ["Sb", "step", 3, None]])
    # ... and the same kind of simulator whose stamp goes STALE: it announced output time 0 in its first step and never rewrites it; at
    # the step at time 2 that is an output time in the past - the run must abort naming the simulator (seed C13-h: the stamp was
    # popped out of the simulator's own dictionary after the first reply, the stale one was never seen)
    add("reused_reply_with_stale_time", ["C13"],
        {"sims": [{"sid": "Sa", "type": "event-based", "initev": True, "reuse": True}, {"sid": "Sb", "type": "event-based", "reuse": True}],
         "transport": "local", "conns": [{"src": "Sa", "dst": "Sb", "sa": "e", "da": "ti"}], "until": 6},
        [["Sa", "step", 1, 2], ["Sa", "step", 2, 4], ["Sa", "step", 3, None],
         ["Sa", "get_data", 1, {"E0": {"e": "a1"}, "time": 0}], ["Sa", "get_data", 2, {"E0": {"e": "a2"}, "time": 0}],
         ["Sa", "get_data", 3, {"E0": {"e": "a3"}, "time": 0}],
         ["Sb", "step", 1, None], ["Sb", "step", 2, None], ["Sb", "step", 3, None]])
    # D9: time-based simulator returning no next step
    add("tb_returns_none", ["C13"],
        {"sims": [{"sid": "Sa", "type": "time-based"}, {"sid": "Sb", "type": "time-based"}],
         "conns": [{"src": "Sa", "dst": "Sb", "sa": "p", "da": "i"}], "until": 3},
        [["Sa", "step", 1, 1], ["Sa", "step", 2, None]] + _tb(["Sb"]))
    # the suite's "insert earlier step" shape with the destination's ancestor in flight
    add("insert_earlier_step", ["C02", "C05", "C01"],
        {"sims": [{"sid": "Sa", "type": "event-based", "initev": True}, {"sid": "Sb", "type": "event-based", "initev": True},
                  {"sid": "Sc", "type": "event-based"}],
         "conns": [{"src": "Sa", "dst": "Sc", "sa": "e", "da": "ti"}, {"src": "Sb", "dst": "Sc", "sa": "e", "da": "ti2"}], "until": 4},
        [["Sa", "step", 1, None], ["Sa", "get_data", 1, {"E0": {"e": "late"}, "time": 3}],
         ["Sb", "step", 1, None], ["Sb", "get_data", 1, {"E0": {"e": "early"}, "time": 1}]],
        policy={"kind": "script", "eager": False, "script": [["Sa", "step"], ["Sa", "get_data"], ["Sb", "step"], ["Sb", "get_data"]]})
    # sibling groups: a same-time loop in one group, consumer in a sibling group (D2)
    add("sibling_groups", ["C01", "C11", "C03"],
        {"sims": [{"sid": "Sa", "type": "hybrid", "gpath": [1]}, {"sid": "Sb", "type": "hybrid", "gpath": [1]},
                  {"sid": "Sc", "type": "hybrid", "gpath": [2]}],
         "conns": [{"src": "Sa", "dst": "Sb", "sa": "e", "da": "ti"}, {"src": "Sb", "dst": "Sa", "sa": "e", "da": "ti", "weak": True},
                   {"src": "Sb", "dst": "Sc", "sa": "e2", "da": "ti"}], "until": 2, "maxloop": 4},
        [["Sa", "step", 1, None], ["Sa", "get_data", 1, {"E0": {"e": "a1"}}], ["Sa", "step", 2, None], ["Sa", "get_data", 2, {"E0": {}}],
         ["Sb", "step", 1, None], ["Sb", "get_data", 1, {"E0": {"e": "b1", "e2": "c1"}}],
         ["Sc", "step", 1, None], ["Sc", "step", 2, None]],
        behaviour={"ev_next": [None], "p_event": 0.0})
    # D33: a World without any simulator (the smallest scenario there is) must simply run to completion
    add("empty_world", ["C05"], {"sims": [], "conns": [], "until": 2})
    return out


def for_property(prop):
    return [c for c in cases() if prop in c["props"]]

"""Model checking the implementation-shaped specification MosaikSched (S) on a scenario,
and turning TLC's behaviours into reply schedules for the real scheduler (spec -> code)."""
from __future__ import annotations

import collections
import json
import os
import re
import shutil

from . import scn as S
from . import tlc

INVARIANTS = ["TypeOK", "ProgressBound", "TauAgree", "InvC01", "InvC02", "InvC03", "InvC05", "InvC07", "InvC09", "InvC10", "InvC13", "InvC16"]


def tla_value(v) -> str:
    if isinstance(v, bool):
        return "TRUE" if v else "FALSE"
    if isinstance(v, int):
        return str(v)
    if isinstance(v, str):
        return '"' + v + '"'
    if isinstance(v, (list, tuple)):
        return "<<" + ", ".join(tla_value(x) for x in v) + ">>"
    if isinstance(v, dict):
        return "[" + ", ".join(f"{k} |-> {tla_value(x)}" for k, x in v.items()) + "]"
    if isinstance(v, (set, frozenset)):
        return "{" + ", ".join(sorted(tla_value(x) for x in v)) + "}"
    raise TypeError(type(v))


def write_mc(wd, scn, name="MC", next_offs=(0, 1, 2), fut_offs=(0, 1), faults=False, agents=(), data_hist=True, cause_hist=True,
             invariants=None, properties=(), deadlock=True, constraint=None):
    sc = S.tla_scn(scn)
    sc["datahist"] = bool(data_hist)
    sc["causehist"] = bool(cause_hist)
    mod = [f"---- MODULE {name} ----", "EXTENDS MosaikSched",
           f"cSC == {tla_value(sc)}",
           f"cNextOffs == {tla_value(set(next_offs))}",
           f"cFutOffs == {tla_value(set(fut_offs))}",
           f"cAgents == {tla_value(set(tuple(a) for a in agents))}"]
    if constraint:
        mod.append(f"cConstraint == {constraint}")
    mod.append("====")
    with open(os.path.join(wd, name + ".tla"), "w") as f:
        f.write("\n".join(mod) + "\n")
    cfg = ["SPECIFICATION Spec" if properties else "INIT Init\nNEXT NextS",
           "CONSTANTS", "  SC <- cSC", "  NextOffs <- cNextOffs", "  FutOffs <- cFutOffs", "  Agents <- cAgents",
           f"  Faults = {'TRUE' if faults else 'FALSE'}"]
    for inv in invariants if invariants is not None else INVARIANTS:
        cfg.append(f"INVARIANT {inv}")
    for p in properties:
        cfg.append(f"PROPERTY {p}")
    if constraint:
        cfg.append("CONSTRAINT cConstraint")
    cfg.append(f"CHECK_DEADLOCK {'TRUE' if deadlock else 'FALSE'}")
    with open(os.path.join(wd, name + ".cfg"), "w") as f:
        f.write("\n".join(cfg) + "\n")
    for m in ("MosaikSched", "MosaikRef", "Tiered"):
        shutil.copy(os.path.join(tlc.SPEC, m + ".tla"), wd)
    return name


_COV = re.compile(r"<(\w+) line \d+, col \d+ to line \d+, col \d+ of module MosaikSched>: (\d+):(\d+)")


def check(scn, workers=4, timeout=600, dump=False, coverage=True, liveness=False, stop_after=None, **kw):
    """Exhaustive TLC run of (S) on one scenario. Returns a result dict (and the dump path if asked).
    stop_after (seconds): TLC's own time budget (-Dtlc2.TLC.stopAfter); the breadth-first search then ends
    gracefully with the states explored so far, res["exhaustive"] says whether the queue was empty."""
    wd = tlc.scratch()
    keep = dump
    try:
        props = ("Termination",) if liveness else ()
        name = write_mc(wd, scn, properties=props, deadlock=not liveness, **kw)
        extra = []
        if coverage:
            extra += ["-coverage", "1"]
        if dump:
            extra += ["-dump", "dot,actionlabels", os.path.join(wd, "graph")]
        env = None
        if stop_after:
            env = {"JAVA_TOOL_OPTIONS": (os.environ.get("JAVA_TOOL_OPTIONS", "") + f" -Dtlc2.TLC.stopAfter={int(stop_after)}").strip()}
        out, secs, rc = tlc.run_tlc(name, cfg=name + ".cfg", workdir=wd, workers=workers, timeout=timeout, extra=extra, heap="6g", env=env)
        st = tlc.stats(out)
        res = {"ok": "Model checking completed. No error has been found" in out, "states": st["distinct"],
               "transitions": st["generated"], "secs": round(secs, 1), "rc": rc}
        left = None
        for left in re.finditer(r"(\d+) states left on queue", out):
            pass
        res["left_on_queue"] = int(left.group(1)) if left else 0
        res["exhaustive"] = res["ok"] and res["left_on_queue"] == 0
        m = re.search(r"Invariant (\w+) is violated", out)
        if m:
            res["violated"] = m.group(1)
        if "Deadlock reached" in out:
            res["violated"] = "Deadlock"
        if "Temporal properties were violated" in out:
            res["violated"] = "Termination"
        if not res["ok"] and "violated" not in res:
            res["error"] = "\n".join(out.splitlines()[-30:])
        if not res["ok"]:
            res["trace"] = parse_error_trace(out)
        acts = collections.Counter()
        for m in _COV.finditer(out):
            acts[m.group(1)] = max(acts[m.group(1)], int(m.group(2)))
        res["actions"] = dict(acts)
        if dump:
            res["dot"] = os.path.join(wd, "graph.dot")
            res["wd"] = wd
        return res
    finally:
        if not keep:
            shutil.rmtree(wd, ignore_errors=True)


_STATE_HDR = re.compile(r"^State (\d+): <(\w+)(?:\((.*)\))? line")


def parse_error_trace(out):
    """Action names (with TLC's printed parameters, if any) of a counterexample."""
    acts = []
    for line in out.splitlines():
        m = _STATE_HDR.match(line)
        if m:
            acts.append(m.group(2))
    return acts


# ---------------------------------------------------------------------------
# state graph -> reply schedules

_EDGE = re.compile(r'^(-?\d+) -> (-?\d+) \[label="(.*)",color=')
_NODE = re.compile(r'^(-?\d+) \[label="')


def parse_dot(path):
    nodes, edges, init = set(), [], None
    with open(path) as f:
        for line in f:
            line = line.rstrip("\n")
            m = _EDGE.match(line)
            if m:
                edges.append((m.group(1), m.group(2), m.group(3).replace('\\"', '"')))
                continue
            m = _NODE.match(line)
            if m:
                nodes.add(m.group(1))
                if "style = filled" in line and init is None:
                    init = m.group(1)
    return nodes, edges, init


def cover_paths(edges, init, limit=None):
    """A set of paths from the initial state that covers every edge of the graph
    (BFS-tree path to the edge's source, the edge, then a greedy walk preferring uncovered edges)."""
    out = collections.defaultdict(list)
    for u, v, l in edges:
        if u != v:
            out[u].append((v, l))
    parent = {init: None}
    q = collections.deque([init])
    while q:
        u = q.popleft()
        for v, l in out[u]:
            if v not in parent:
                parent[v] = (u, l)
                q.append(v)

    def tree_path(u):
        p = []
        while parent[u] is not None:
            pu, l = parent[u]
            p.append((pu, u, l))
            u = pu
        return p[::-1]

    uncovered = {(u, v, l) for u in out for v, l in out[u] if u in parent}
    total = len(uncovered)
    paths = []
    while uncovered and (limit is None or len(paths) < limit):
        u, v, l = min(uncovered)
        path = tree_path(u) + [(u, v, l)]
        for e in path:
            uncovered.discard(e)
        cur = v
        steps = 0
        while out[cur] and steps < 400:
            nxt = [(w, ll) for w, ll in out[cur] if (cur, w, ll) in uncovered] or out[cur]
            w, ll = nxt[0]
            uncovered.discard((cur, w, ll))
            path.append((cur, w, ll))
            cur = w
            steps += 1
        paths.append([e[2] for e in path])
    return paths, total, total - len(uncovered)


_STEPRET = re.compile(r'^StepReturn\("(\w+)",\s*\[(.*)\]\)$')
_DATARET = re.compile(r'^DataReturn\("(\w+)",\s*(\{.*\}),\s*(-?\d+)\)$')
_SETDATA = re.compile(r'^SetData\("(\w+)",\s*"(\w+)",\s*"(\w+)",\s*(\d+)\)$')
_PAIR = re.compile(r'<<"(\w+)",\s*"(\w+)">>')


def externals(path):
    """Project a behaviour (list of edge labels) to what the environment controls:
    [("step", sid, reply) | ("get_data", sid, (attrs, dt)) | ("set_data", agent, target, attr, n)],
    each with the number of internal actions that precede it since the previous external one."""
    ext = []
    internal = 0
    for l in path:
        m = _STEPRET.match(l)
        if m:
            fields = dict(re.findall(r'(\w+) \|-> ("?[\w-]+"?)', m.group(2)))
            nk = fields["nk"].strip('"')
            n = int(fields["n"])
            ext.append({"a": "step", "s": m.group(1), "nk": nk, "n": n, "internal_before": internal})
            internal = 0
            continue
        m = _DATARET.match(l)
        if m:
            attrs = _PAIR.findall(m.group(2))
            ext.append({"a": "get_data", "s": m.group(1), "attrs": [list(a) for a in attrs], "dt": int(m.group(3)), "internal_before": internal})
            internal = 0
            continue
        m = _SETDATA.match(l)
        if m:
            ext.append({"a": "set_data", "s": m.group(1), "target": m.group(2), "attr": m.group(3), "n": int(m.group(4)), "internal_before": internal})
            continue
        internal += 1
    return ext


def case_from_externals(scn, ext, ident):
    """A harness case (table behaviour + script policy) that makes the real scheduler follow ext."""
    table = []
    script = []
    kstep = collections.Counter()
    calls = collections.defaultdict(list)
    for e in ext:
        sid = e["s"]
        if e["a"] == "set_data":
            calls[(sid, kstep[sid] + 1)].append(["set_data", e["target"], e["attr"], e["n"]])
            continue
        if e["a"] == "step":
            kstep[sid] += 1
            k = kstep[sid]
            val = {"int": e["n"], "none": None, "bad": "bad"}[e["nk"]]
            table.append([sid, "step", k, {"__reply__": val, "calls": calls.pop((sid, k), [])}])
            script.append([sid, "step"])
        else:
            k = kstep[sid]
            table.append([sid, "get_data", k, {"__data__": e["attrs"], "dt": e["dt"]}])
            script.append([sid, "get_data"])
    return {"id": ident, "scn": scn, "seed": 0, "behaviour": {"kind": "model", "table": table},
            "policy": {"kind": "script", "script": script, "eager": True}}


# ---------------------------------------------------------------------------
# code -> spec for the internal layer (SchedTrace.tla)

_ST = re.compile(r'<<"ST", (\d+), "(accepted|rejected)", (\d+)(?:, (.*))?>>$')


def validate_internal(scn, results, timeout=900, **kw):
    """results: list of explore results with 'internal' records (same scenario).
    Returns list of {"accepted": bool, "at": l, "what": str, "viol": str} per result."""
    from .drive import categorize

    # executions whose internal sections could not be recorded (the code no longer has the shape the
    # out-of-tree wrappers expect) are reported as not accepted = drift; they are not sent to TLC
    if any(r.get("internal") is None for r in results):
        have = [r for r in results if r.get("internal") is not None]
        sub, info = validate_internal(scn, have, timeout=timeout, **kw) if have else ([], {"states": 0, "generated": 0, "secs": 0.0})
        it = iter(sub)
        return [next(it) if r.get("internal") is not None else
                {"accepted": False, "at": 0, "what": "internal trace unavailable: " + str(r.get("internal_unavailable"))[:150]}
                for r in results], info

    wd = tlc.scratch()
    try:
        name = write_mc(wd, scn, name="ST", invariants=[], deadlock=False, **kw)
        txt = open(os.path.join(wd, "ST.tla")).read().replace("EXTENDS MosaikSched", "EXTENDS SchedTrace")
        open(os.path.join(wd, "ST.tla"), "w").write(txt)
        cfg = open(os.path.join(wd, "ST.cfg")).read().replace("INIT Init\nNEXT NextS", "SPECIFICATION TSpec")
        open(os.path.join(wd, "ST.cfg"), "w").write(cfg)
        shutil.copy(os.path.join(tlc.SPEC, "SchedTrace.tla"), wd)
        batch = [{"ev": r["internal"], "cat": categorize(r["outcome"])} for r in results]
        path = os.path.join(wd, "batch.json")
        json.dump(batch, open(path, "w"))
        out, secs, rc = tlc.run_tlc("ST", cfg="ST.cfg", workdir=wd, env={"TRACE_FILE": path}, workers=1, timeout=timeout, heap="4g")
    finally:
        shutil.rmtree(wd, ignore_errors=True)
    res = [None] * len(results)
    for t in tlc.tuples(out, "ST"):
        m = _ST.match(t)
        if m:
            i = int(m.group(1)) - 1
            res[i] = {"accepted": m.group(2) == "accepted", "at": int(m.group(3)), "what": (m.group(4) or "")[:200]}
    if any(r is None for r in res):
        # TLC stopped with an evaluation error on one of the recorded projections (e.g. a tiered time of a length that no
        # state of (S) has - code and model differ in shape): every trace that was not judged counts as rejected = drift
        if "Error:" not in out:
            raise tlc.TLCError("SchedTrace did not judge every trace\n" + "\n".join(out.splitlines()[-40:]))
        why = next((l for l in out.splitlines() if l.startswith("Error:")), "Error")[:160]
        res = [r if r is not None else {"accepted": False, "at": 0, "what": "SchedTrace could not evaluate the recorded projection: " + why} for r in res]
    return res, {"states": tlc.stats(out)["distinct"], "generated": tlc.stats(out)["generated"], "secs": secs}


_PW = re.compile(r'<<"PW", (\d+), "(accepted|rejected)", (\d+)(?:, (.*))?>>$')


def validate_wake(results, timeout=600):
    """Wake-up layer (ProgressWake / ProgressTrace): results = explore results with a 'wake' record (any scenarios - one TLC
    run judges the whole batch).  Returns ([{"accepted", "at", "what"} per result], info).  Executions without a record
    (hooks unavailable, or longer than the recording limit) are 'unavailable' = drift / skipped, never a verdict."""
    have = [(i, r) for i, r in enumerate(results) if r.get("wake")]
    res = [None] * len(results)
    for i, r in enumerate(results):
        if not r.get("wake"):
            res[i] = {"accepted": None, "at": 0, "what": "wake-up trace unavailable: " + str(r.get("wake_unavailable"))[:120]}
    info = {"states": 0, "generated": 0, "secs": 0.0, "events": 0}
    if not have:
        return res, info
    wd = tlc.scratch()
    try:
        for f in ("ProgressTrace.tla", "ProgressTrace.cfg"):
            shutil.copy(os.path.join(tlc.SPEC, f), wd)
        batch = [r["wake"] for _, r in have]
        info["events"] = sum(len(b["ev"]) for b in batch)
        path = os.path.join(wd, "batch.json")
        json.dump(batch, open(path, "w"))
        out, secs, rc = tlc.run_tlc("ProgressTrace", cfg="ProgressTrace.cfg", workdir=wd, env={"TRACE_FILE": path}, workers=1, timeout=timeout, heap="3g")
    finally:
        shutil.rmtree(wd, ignore_errors=True)
    got = {}
    for t in tlc.tuples(out, "PW"):
        m = _PW.match(t)
        if m:
            got[int(m.group(1)) - 1] = {"accepted": m.group(2) == "accepted", "at": int(m.group(3)), "what": (m.group(4) or "")[:240]}
    why = next((l for l in out.splitlines() if l.startswith("Error:")), "")[:160]
    for k, (i, r) in enumerate(have):
        res[i] = got.get(k) or {"accepted": False, "at": 0, "what": "ProgressTrace could not evaluate the recorded calls: " + (why or "no verdict line")}
    info.update(states=tlc.stats(out)["distinct"], generated=tlc.stats(out)["generated"], secs=secs)
    return res, info

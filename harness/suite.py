"""The repository's own scenario definitions (tests/scenarios/*.create_scenario) and simulators,
re-run on the harness under many reply schedules.

The suite executes every scenario with in-process simulators, i.e. under ONE schedule.  Here the
same `create_scenario(world)` functions build the World, but every simulator is the suite's real
Simulator object behind a proxy that parks `step`/`get_data` until the schedule controller
releases it (the real method runs at release time, incl. generator-style call-backs).  The
scenario record for the reference semantics is extracted from the recorded `start`, `connect`
and `set_initial_event` calls (roles via Entity.is_persistent / triggered_by).
"""
from __future__ import annotations

import asyncio
import copy
import glob
import importlib
import importlib.util
import os
import re
import sys

from . import REPO, drive
from .drive import Ctx, Pending, Reply, _de_event, _enc_next, _inp_list
from .vloop import VLoop

import mosaik
from mosaik.proxies import BaseProxy, LocalProxy
from mosaik.simmanager import StarterCollection

PY_SIMS = {
    "Local": "example_sim.mosaik:ExampleSim",
    "LocalMAS": "example_mas.mosaik:ExampleMas",
    "Generic": "tests.simulators.generic_test_simulator:TestSim",
    "LoopSim": "tests.simulators.loop_simulators.loop_simulator:LoopSim",
    "FixedOut": "tests.simulators.fixed_output_sim:FixedOutputSim",
    "EchoSim": "tests.simulators.loop_simulators.echo_simulator:EchoSim",
}


class WrapProxy(BaseProxy):
    """The suite's simulator behind the shipped LocalProxy, made asynchronous."""

    def __init__(self, ctx, sim, mosaik_remote):
        self.ctx = ctx
        self.inner = LocalProxy(sim, mosaik_remote)
        self.sid = None

    async def init(self, sid, **kw):
        self.sid = sid
        return await self.inner.init(sid, **kw)

    @property
    def meta(self):
        return self.inner.meta

    async def send(self, request):
        func, args, kwargs = request
        ctx = self.ctx
        if func not in ("step", "get_data") or not ctx.running:
            if func == "setup_done":
                ctx.record({"k": "SETUP", "s": self.sid})
            return await self.inner.send(request)
        loop = asyncio.get_running_loop()
        fut = loop.create_future()
        ctx.nreq += 1
        if func == "step":
            ctx.nstep[self.sid] = ctx.nstep.get(self.sid, 0) + 1
            t, inputs, m = args
            ctx.steptime[self.sid] = t
            ctx.record({"k": "SB", "s": self.sid, "t": t, "m": m, "inp": _inp_list(inputs)})
        else:
            ctx.record({"k": "DB", "s": self.sid})
        ctx.pending[self.sid] = Pending(func, self.sid, ctx.nstep.get(self.sid, 0), (), fut, ctx.nreq)
        await fut
        res = await self.inner.send(request)  # the suite's real simulator code runs now
        if func == "step":
            nk, n = _enc_next(res)
            ctx.record({"k": "SE", "s": self.sid, "nk": nk, "n": n, "nodata": not ctx.world.sims[self.sid].output_request})
        else:
            ctx.record(_de_event(self.sid, res, ctx.steptime[self.sid]))
        return res

    async def stop(self):
        self.ctx.record({"k": "STOP", "s": self.sid})
        await self.inner.stop()


class _NullBehaviour:
    def reply(self, ctx, p):
        return Reply(None)


async def _starter(mosaik_config, sim_name, sim_config, mosaik_remote):
    mod_name, cls_name = sim_config["vwrap"].split(":")
    cls = getattr(importlib.import_module(mod_name), cls_name)
    return WrapProxy(drive.CTX, cls(), mosaik_remote)


StarterCollection()["vwrap"] = _starter


def scenario_files():
    out = []
    for f in sorted(glob.glob(os.path.join(REPO, "tests", "scenarios", "test_*.py"))):
        src = open(f).read()
        if "create_scenario" not in src or "rt_factor" in src or re.search(r'start\(\s*["\']Remote', src):
            continue
        m = re.search(r"world\.run\(until=(\d+)\)", src)
        if not m:
            continue
        out.append((os.path.basename(f)[:-3], f, int(m.group(1))))
    return out


def _load(path):
    name = "verif_suite_" + re.sub(r"\W", "_", os.path.basename(path)[:-3])
    spec = importlib.util.spec_from_file_location(name, path)
    mod = importlib.util.module_from_spec(spec)
    spec.loader.exec_module(mod)
    return mod


def execute_suite(name, path, until, policy, lazy=True, cache=True):
    """Build the suite scenario `name` on a fresh World and run it under `policy`.
    Returns (ctx, scn) - scn is the extracted scenario record (or None if it is outside the reference's family)."""
    if REPO not in sys.path:
        sys.path.insert(0, REPO)
    ctx = drive.CTX = Ctx({"sims": [], "conns": [], "until": until, "lazy": lazy, "cache": cache, "maxloop": 100}, _NullBehaviour(), policy)
    ctx.running = False
    loop = VLoop(drive.make_controller(ctx))
    asyncio.set_event_loop(loop)
    ctx.loop = loop
    world = mosaik.World({k: {"vwrap": v} for k, v in PY_SIMS.items()}, skip_greetings=True, cache=cache, asyncio_loop=loop)
    ctx.world = world
    facs, conns, initev, groups = {}, [], {}, {}
    o_start, o_connect, o_init = world.start, world.connect, world.set_initial_event

    def start(sim_name, sim_id=None, **kw):
        fac = o_start(sim_name, sim_id=sim_id, **kw)
        facs[fac._sid] = fac
        return fac

    def connect(src, dest, *pairs, **kw):
        r = o_connect(src, dest, *pairs, **kw)
        conns.append((src, dest, pairs, kw))
        return r

    def set_initial_event(sid, time=0):
        initev[sid] = time
        return o_init(sid, time)

    world.start, world.connect, world.set_initial_event = start, connect, set_initial_event
    scn = None
    try:
        try:
            _load(path).create_scenario(world)
        except BaseException as e:  # noqa: BLE001
            ctx.outcome = dict(drive.classify(e), phase="build")
            return ctx, None
        scn = extract(world, facs, conns, initev, until, lazy, cache)
        ctx.scn = scn or ctx.scn
        ctx.has_out = {c["src"] for c in (scn or {"conns": []})["conns"] if c["sa"]}
        ctx.running = True
        try:
            world.run(until=until, print_progress=False, lazy_stepping=lazy)
            ctx.outcome = {"r": "ok", "msg": "", "phase": "run"}
        except BaseException as e:  # noqa: BLE001
            ctx.outcome = dict(drive.classify(e), phase="run")
    finally:
        ctx.loop_closed = loop.is_closed()
        try:
            if not loop.is_closed():
                loop.controller = lambda q: False
                pend = [t for t in asyncio.all_tasks(loop) if not t.done()]
                for t in pend:
                    t.cancel()
                loop.run_until_complete(asyncio.gather(*pend, return_exceptions=True))
                loop.close()
        except BaseException:  # noqa: BLE001
            pass
        asyncio.set_event_loop(None)
        drive.CTX = None
    pend = getattr(loop, "pending_at_close", None)
    ctx.record({"k": "END", "r": ctx.outcome["r"], "cat": drive.categorize(ctx.outcome), "names": drive.named_sims(ctx.scn, ctx.outcome["msg"]),
                "closed": bool(ctx.loop_closed), "pend": len(pend or []), "pendnames": []})
    return ctx, scn


def extract(world, facs, conns, initev, until, lazy, cache):
    gids = {}

    def gpath(g):
        path = []
        while g.parent is not None:
            path.append(gids.setdefault(id(g), len(gids) + 1))
            g = g.parent
        return path[::-1]

    sims = []
    for sid, runner in world.sims.items():
        if sid not in facs:
            return None
        ie = initev.get(sid)
        if ie not in (None, 0) or (ie == 0 and runner.type != "event-based" and False):
            return None
        sims.append({"sid": sid, "type": runner.type, "gpath": gpath(facs[sid]._group), "initev": ie == 0})
    out = []
    for src, dest, pairs, kw in conns:
        shift = int(kw.get("time_shifted", 0))
        weak = bool(kw.get("weak", False))
        init = kw.get("initial_data", {})
        asy = bool(kw.get("async_requests", False))
        plist = [(a, a) if isinstance(a, str) else tuple(a) for a in pairs]
        if not plist and asy:
            out.append({"src": src.sid, "dst": dest.sid, "sa": "", "da": "", "se": src.eid, "de": dest.eid, "async": True})
        for i, (sa, da) in enumerate(plist):
            out.append({"src": src.sid, "dst": dest.sid, "sa": sa, "da": da, "se": src.eid, "de": dest.eid, "shift": shift, "weak": weak,
                        "init": str(init[sa]) if sa in init else "", "async": asy and i == 0, "pers": bool(src.is_persistent(sa)),
                        "trig": bool(dest.triggered_by(da)), "roles_given": True})
    from . import scn as S

    return S.normalize({"sims": sims, "conns": out, "until": until, "lazy": lazy, "cache": cache, "maxloop": world.max_loop_iterations})

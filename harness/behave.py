"""Simulator behaviours (what a scripted simulator replies) and schedule policies
(which outstanding reply is delivered at which loop iteration)."""
from __future__ import annotations

import asyncio
import random
from typing import Optional

from . import scn as S
from .drive import Reply, Pending, Ctx


def tok(sid, k, attr, eid="E0"):
    """Provenance token: the value of ``attr`` produced by the k-th step of ``sid`` (for entity ``eid``)."""
    return f"{sid}.{k}.{attr}" if eid == "E0" else f"{sid}.{k}.{attr}@{eid}"


class RandomBehaviour:
    """API-compliant behaviour; every reply is a deterministic function of
    ``(seed, sid, request kind, step index)`` and therefore independent of the
    schedule (needed for C04; harmless elsewhere)."""

    def __init__(self, seed, tb_next=(1, 2, 3), ev_next=(None, None, 1, 2), p_event=0.6, p_future=0.2,
                 future=(0, 1, 2), sparse_pers=False, p_none=0.0, recur=0, p_extra=0.0, jump=0, p_time_echo=0.0, future_pers=False, hold=0):
        self.seed = seed
        self.tb_next = tb_next
        self.ev_next = ev_next
        self.p_event = p_event
        self.p_future = p_future
        self.future = future
        self.sparse_pers = sparse_pers
        self.future_pers = future_pers  # replies with persistent attributes may be dated into the future as well
        # hold > 0 (>= 3): a persistent value is HELD for `hold` consecutive steps - the very same object is sent again - and the first
        # reply of each run is announced ahead (dated 1-2 steps into the future), the later ones at their own time: output times are
        # not monotone, but any two productions whose order is inverted carry the same value ("the most recent due value" is unambiguous)
        self.hold = hold
        self.jump = jump  # > 0: every simulator's FIRST step returns time + jump as its next step (the rest of the run happens at large times)
        self.p_time_echo = p_time_echo  # probability that a get_data reply carries 'time' = the step time (as a fresh int object)
        self.p_extra = p_extra  # probability that a get_data reply also contains an attribute / an entity nobody asked for
        self.recur = recur  # > 0: persistent values RECUR with this period (v, w, v, ...) instead of being unique per step
        self.p_none = p_none  # probability that a produced value is None / falsy / a list / a dict (legal values, not "no output")

    def meta(self, sid, typ):
        return S.meta_for(typ)

    def rng(self, sid, kind, k):
        return random.Random(f"{self.seed}|{sid}|{kind}|{k}")

    def reply(self, ctx: Ctx, p: Pending) -> Reply:
        typ = S.sim_by_id(ctx.scn)[p.sid]["type"]
        r = self.rng(p.sid, p.kind, p.k)
        if p.kind == "step":
            t = p.args[0]
            if self.jump and p.k == 1:
                return Reply(t + self.jump)
            if typ == "time-based":
                return Reply(t + r.choice(self.tb_next))
            off = r.choice(self.ev_next)
            return Reply(None if off is None else t + off)
        req = p.args[0]
        t = ctx.steptime[p.sid]
        data = {}
        any_pers = False
        for eid, attrs in sorted(req.items()):
            d = {}
            for a in sorted(set(attrs)):
                if S.is_pers(a) and self.hold:
                    import sys as _sys

                    d[a] = _sys.intern(tok(p.sid, f"h{(p.k - 1) // self.hold}", a, eid))
                    any_pers = True
                elif S.is_pers(a):
                    d[a] = tok(p.sid, p.k, a, eid) if not self.recur else tok(p.sid, f"r{p.k % self.recur}", a, eid)
                    any_pers = True
                elif r.random() < self.p_event:
                    d[a] = tok(p.sid, p.k, a, eid)
            if self.p_none:
                rn = self.rng(p.sid, "none", p.k)
                for a in sorted(d):
                    if rn.random() < self.p_none:
                        # None and other falsy or structured values are legal VALUES, not "no output"
                        d[a] = rn.choice([None, None, 0, "", False, [d[a]], {"v": d[a]}])
            data[eid] = d
        if self.hold and typ != "time-based" and any_pers:
            if (p.k - 1) % self.hold == 0:
                data["time"] = t + self.rng(p.sid, "hold", p.k).choice([1, 2])
        elif typ != "time-based" and any_pers and self.future_pers:
            # persistent values dated into the future by a CONSTANT offset per simulator (output times stay in production order:
            # which of two values is "the most recent" when a later step dates its output earlier is left open by the property)
            c = self.rng(p.sid, "fp", 0).choice(self.future)
            if c:
                data["time"] = t + c
        elif typ != "time-based" and not any_pers and r.random() < self.p_future:
            data["time"] = t + r.choice(self.future)
        if self.p_time_echo and "time" not in data and self.rng(p.sid, "echo", p.k).random() < self.p_time_echo:
            data["time"] = int(str(t))  # the optional output time, equal to the step time (legal; an equal but distinct int object)
        if self.p_extra:
            rx = self.rng(p.sid, "extra", p.k)
            if rx.random() < self.p_extra and data:
                # more than was requested: an attribute that is connected nowhere and an entity that does not take part
                eid0 = sorted(k_ for k_ in data if k_ != "time")[:1]
                for e_ in eid0:
                    data[e_]["zz"] = tok(p.sid, p.k, "zz", e_)
                data["E9" + (ctx.scn.get("eid_suffix") or "")] = {"p": tok(p.sid, p.k, "p", "E9"), "e": tok(p.sid, p.k, "e", "E9")}
        return Reply(data)


class TableBehaviour(RandomBehaviour):
    """Behaviour dictated step by step: ``table[(sid, kind, k)]`` -> reply value; falls
    back to the random (seeded) behaviour when the table has no entry."""

    def __init__(self, table, seed=0, **kw):
        super().__init__(seed, **kw)
        self.table = table

    def reply(self, ctx, p):
        key = (p.sid, p.kind, p.k)
        if key in self.table:
            v = self.table[key]
            return v if isinstance(v, Reply) else Reply(v)
        return super().reply(ctx, p)


# ---------------------------------------------------------------------------


class RandomPolicy:
    """Deliver a random outstanding reply at quiescence, and with probability
    ``early`` also at non-quiescent loop iterations."""

    def __init__(self, seed, early=0.3):
        self.rng = random.Random(f"pol|{seed}")
        self.early = early

    def choose(self, ctx, quiescent) -> Optional[str]:
        if quiescent or self.rng.random() < self.early:
            return self.rng.choice(sorted(ctx.pending))
        return None


class FifoPolicy:
    """Always deliver the oldest outstanding reply at once (closest to the suite's
    in-process simulators)."""

    def choose(self, ctx, quiescent):
        return min(ctx.pending.values(), key=lambda p: p.seq).sid


class LifoQuiescentPolicy:
    """Deliver the newest outstanding reply, only at quiescence."""

    def choose(self, ctx, quiescent):
        if not quiescent:
            return None
        return max(ctx.pending.values(), key=lambda p: p.seq).sid


class ScriptPolicy:
    """Follow a list of (sid, kind[, early]) deliveries; a delivery happens as soon as the
    request is outstanding (``early``) or at quiescence.  When the scripted
    delivery is impossible at quiescence, fall back to ``fallback`` (and count it)."""

    def __init__(self, script, fallback=None, eager=True):
        self.script = list(script)
        self.pos = 0
        self.eager = eager
        self.fallback = fallback or FifoPolicy()
        self.deviations = 0

    def choose(self, ctx, quiescent):
        if self.pos < len(self.script):
            ent = self.script[self.pos]
            sid, kind = ent[0], ent[1]
            eager = ent[2] if len(ent) > 2 else self.eager
            p = ctx.pending.get(sid)
            if p is not None and p.kind == kind and (quiescent or eager):
                self.pos += 1
                return sid
            if not quiescent:
                return None
            self.deviations += 1
            return self.fallback.choose(ctx, quiescent)
        if not quiescent:
            return None
        return self.fallback.choose(ctx, quiescent)


class ReplayPolicy:
    """Re-take a recorded schedule exactly: deliveries happen at the recorded controller
    call numbers.  If the code under test has changed so that the recorded delivery is not
    possible, fall back to FIFO at quiescence (counted in ``deviations``)."""

    def __init__(self, delivered):
        self.at = {int(d[0]): d[1] for d in delivered}
        self.deviations = 0

    def choose(self, ctx, quiescent):
        sid = self.at.get(ctx.ncall)
        if sid is not None and sid in ctx.pending:
            return sid
        if sid is not None:
            self.deviations += 1
        if quiescent:
            if sid is None:
                self.deviations += 1
            return min(ctx.pending.values(), key=lambda p: p.seq).sid
        return None


class ChoicePolicy:
    """Stateless-DFS policy: the n-th decision point takes ``prefix[n]`` if given,
    else option 0; records the number of options at each decision point.
    Decision points: every controller call with >= 1 outstanding reply.  Options
    at quiescence: one per outstanding reply; otherwise: 'wait' (option 0) or any
    outstanding reply (a preemption, counted against ``max_early``)."""

    def __init__(self, prefix=(), max_early=1):
        self.prefix = list(prefix)
        self.n = 0
        self.options = []
        self.early_used = 0
        self.max_early = max_early

    def choose(self, ctx, quiescent):
        pend = sorted(ctx.pending)
        if quiescent:
            opts = pend
        else:
            if self.early_used >= self.max_early:
                return None
            opts = [None] + pend
        if len(opts) == 1:
            return opts[0]
        i = self.prefix[self.n] if self.n < len(self.prefix) else 0
        self.options.append(len(opts))
        self.n += 1
        c = opts[i]
        if not quiescent and c is not None:
            self.early_used += 1
        return c


class FaultyBehaviour(RandomBehaviour):
    """Compliant random behaviour except for ONE malformed reply (C13 families).
    fault = {"sid", "k", "req": "step"|"get_data", "how": [kind, arg]} with kind in
    rel (t+arg), abs (arg), list_rel ([t+arg]), none, time_rel (output time t+arg), time_abs."""

    def __init__(self, seed, fault, **kw):
        super().__init__(seed, **kw)
        self.fault = fault

    def reply(self, ctx, p):
        f = self.fault
        rep = super().reply(ctx, p)
        if p.sid != f["sid"] or p.k != f["k"] or p.kind != f["req"]:
            return rep
        kind, arg = (list(f["how"]) + [None])[:2]
        t = ctx.steptime[p.sid]
        if p.kind == "step":
            rep.value = _bad_next(kind, arg, t)
        else:
            data = rep.value
            data.pop("time", None)
            if kind == "time_only_rel":
                data.clear()  # a reply that consists of the (too early) output time alone
                data["time"] = t + arg
            else:
                data["time"] = t + arg if kind == "time_rel" else arg
        return rep


def _bad_next(kind, arg, t):
    """Malformed next-step replies: rel (t+arg), abs (arg), list_rel ([t+arg]), none, and numbers that are not integers
    although they are later than t: frac (t + Fraction(arg[0], arg[1])), dec (Decimal), cplx (complex)."""
    import decimal
    import fractions

    return {"rel": lambda: t + arg, "abs": lambda: arg, "list_rel": lambda: [t + arg], "none": lambda: None,
            "frac": lambda: t + fractions.Fraction(arg[0], arg[1]), "dec": lambda: decimal.Decimal(t) + decimal.Decimal(str(arg)),
            "cplx": lambda: complex(t + arg, 0)}[kind]()


class AgentBehaviour(RandomBehaviour):
    """Random behaviour plus call-backs into mosaik during step() (C16 families).
    agents = {agent sid: {"target": sid, "attr": input attr of the target, "p": probability}};
    illegal = [{"sid", "k", "f": "set_data"|"get_data", "target"}] calls that must be refused."""

    def __init__(self, seed, agents=None, illegal=(), **kw):
        super().__init__(seed, **kw)
        self.agents = agents or {}
        self.illegal = list(illegal)

    def reply(self, ctx, p):
        rep = super().reply(ctx, p)
        if p.kind != "step":
            return rep
        a = self.agents.get(p.sid)
        r = self.rng(p.sid, "cb", p.k)
        if a and r.random() < a.get("p", 0.7):
            n = 1 + (r.random() < 0.25)
            for j in range(n):
                val = tok(p.sid, p.k, "sd" + (str(j) if j else ""))
                dests = {f"{a['target']}.{a.get('eid', 'E0')}": {a["attr"]: val}}
                for e2 in a.get("also", []):
                    # ONE set_data call that addresses several entities of the target (each gets its own value)
                    if r.random() < 0.6:
                        dests[f"{a['target']}.{e2}"] = {a["attr"]: tok(p.sid, p.k, "sd" + (str(j) if j else "") + e2)}
                payload = {f"{p.sid}.E0": dests}
                mt = a.get("multi")
                if mt and r.random() < 0.7:
                    # ONE call of an agent simulator with several agent entities that controls several simulators:
                    # every (agent entity, controlled simulator) pair carries its own value
                    payload = {f"{p.sid}.{se}": {f"{t}.E0": {a["attr"]: tok(p.sid, p.k, f"sd{j}{se}{t}")} for t in mt["targets"]} for se in mt["srcs"]}
                rep.calls.append(("set_data", payload))
        if a and a.get("get") and r.random() < 0.5:
            rep.calls.append(("get_data", {f"{a['target']}.E0": [a["get"]]}))
        for ill in self.illegal:
            if ill["sid"] == p.sid and ill["k"] == p.k:
                if ill["f"] == "set_data":
                    dests = {f"{ill['target']}.E0": {ill.get("attr", "i"): "illegal"}}
                    if ill.get("mixed") and a:
                        # ONE call that names a permitted destination as well, before or after the forbidden one
                        legal = {f"{a['target']}.{a.get('eid', 'E0')}": {a["attr"]: tok(p.sid, p.k, "sdm")}}
                        dests = {**legal, **dests} if ill["mixed"] == "legal_first" else {**dests, **legal}
                    rep.calls.append(("set_data", {f"{p.sid}.E0": dests}))
                else:
                    rep.calls.append(("get_data", {f"{ill['target']}.E0": [ill.get("attr", "p")]}))
        return rep


class ModelBehaviour(RandomBehaviour):
    """Replies dictated by a behaviour of the TLA+ specification MosaikSched (spec -> code).
    table[(sid, "step", k)] = {"__reply__": int|None|"bad", "calls": [["set_data", target, attr, n], ...]}
    table[(sid, "get_data", k)] = {"__data__": [[eid, attr], ...], "dt": int}
    Values are the provenance tokens the specification uses (Tok(s, k, a))."""

    def __init__(self, table, seed=0):
        super().__init__(seed)
        self.table = table
        self.unscripted = 0

    def reply(self, ctx, p):
        ent = self.table.get((p.sid, p.kind, p.k))
        if ent is None:
            self.unscripted += 1
            if p.kind == "step":
                typ = S.sim_by_id(ctx.scn)[p.sid]["type"]
                return Reply(p.args[0] + 1 if typ == "time-based" else None)
            return Reply({eid: {a: tok(p.sid, p.k, a) for a in attrs if S.is_pers(a)} for eid, attrs in p.args[0].items()})
        if p.kind == "step":
            v = ent["__reply__"]
            rep = Reply(1.5 if v == "bad" else v)
            for c in ent.get("calls", []):
                _, target, attr, n = c
                rep.calls.append(("set_data", {f"{p.sid}.E0": {f"{target}.E0": {attr: tok(p.sid, p.k, f"sd{n}")}}}))
            return rep
        data = {eid: {} for eid in p.args[0]}
        for eid, a in ent["__data__"]:
            data.setdefault(eid, {})[a] = tok(p.sid, p.k, a)
        if ent.get("dt"):
            data["time"] = ctx.steptime[p.sid] + ent["dt"]
        return Reply(data)


EXC_TYPES = {"RuntimeError": RuntimeError, "StopIteration": StopIteration, "KeyError": KeyError, "ValueError": ValueError,
             "ZeroDivisionError": ZeroDivisionError, "StopAsyncIteration": StopAsyncIteration, "AttributeError": AttributeError,
             # (a handler that awaits something cancelled fails with CancelledError - a BaseException since 3.8, and the one asyncio itself treats specially)
             "CancelledError": asyncio.CancelledError, "TimeoutError": asyncio.TimeoutError}


def make_exc(name, msg):
    """The exception an in-process simulator raises (any Exception type is a failure of the simulator)."""
    return EXC_TYPES.get(name or "RuntimeError", RuntimeError)(msg)


class FaultPlanBehaviour(AgentBehaviour):
    """Compliant random behaviour with ONE simulator failure (C14 families).
    plan = {"sid", "req": "step"|"get_data"|"setup_done", "k", "kind"}, kind in
      eof / reset     : the connection is closed / reset while the request is outstanding (remote)
      eof_idle        : the simulator answers the request and then dies (remote, no request outstanding)
      remote_exception: the remote handler raises; the failure is reported over the connection
      raise           : an in-process simulator raises
    plan["forwarded"]: the failing request is a get_data that mosaik passes on FOR ANOTHER simulator (an agent's asynchronous
    get_data during its step), not one of the scheduler's own; agents = the agents of AgentBehaviour (they issue those requests)."""

    def __init__(self, seed, plan, agents=None, **kw):
        super().__init__(seed, agents, (), **kw)
        self.plan = plan

    def reply(self, ctx, p):
        rep = super().reply(ctx, p)
        pl = self.plan
        if pl.get("forwarded") and (not getattr(ctx, "in_async_call", None) or getattr(self, "fired", False)):
            return rep
        if p.sid == pl["sid"] and p.kind == pl["req"] and (p.k == pl["k"] or (pl.get("forwarded") and p.k >= pl["k"])):
            self.fired = bool(pl.get("forwarded"))
            if pl["kind"] in ("eof", "reset", "eof_idle"):
                rep.fault = pl["kind"]
            else:
                rep.exc = make_exc(pl.get("exc"), f"injected failure in {p.sid}.{p.kind}")
        return rep


class RTBehaviour(RandomBehaviour):
    """Behaviour for real-time runs (C17): every request has a (virtual) duration; simulators may
    call set_event during their steps.  durations: list of multiples of K/2 (seconds) to draw from;
    events = {sid: {"p": probability, "offsets": [...]}} -> set_event(time + offset)."""

    def __init__(self, seed, K=1.0, durations=(0,), events=None, no_self_steps=(), **kw):
        super().__init__(seed, **kw)
        self.K = K
        self.durations = durations
        self.events = events or {}
        self.no_self_steps = set(no_self_steps)  # simulators that only step on (external) events

    def duration(self, ctx, p):
        r = self.rng(p.sid, "dur" + p.kind, p.k)
        return r.choice(self.durations) * self.K / 2.0

    def reply(self, ctx, p):
        rep = super().reply(ctx, p)
        if p.kind == "step" and p.sid in self.no_self_steps:
            rep.value = None
        ev = self.events.get(p.sid)
        if p.kind == "step" and ev:
            r = self.rng(p.sid, "ev", p.k)
            if r.random() < ev.get("p", 0.5):
                rep.calls.append(("set_event", p.args[0] + r.choice(ev.get("offsets", [1, 2]))))
        return rep


class FaultyRTBehaviour(RTBehaviour):
    """A real-time run with ONE malformed reply (C13 in real-time mode): the faulting simulator may call
    set_event in the very step whose reply is malformed, so a further step of it is already scheduled when
    the reply is validated.  fault as for FaultyBehaviour plus "event": offset of the set_event call (0: none)."""

    def __init__(self, seed, fault, **kw):
        super().__init__(seed, **kw)
        self.fault = fault

    def reply(self, ctx, p):
        f = self.fault
        rep = super().reply(ctx, p)
        if p.sid != f["sid"] or p.k != f["k"] or p.kind != f["req"]:
            return rep
        kind, arg = (list(f["how"]) + [None])[:2]
        t = ctx.steptime[p.sid]
        if p.kind == "step":
            rep.value = _bad_next(kind, arg, t)
            if f.get("event"):
                rep.calls = [c for c in rep.calls if c[0] != "set_event"] + [("set_event", t + f["event"])]
        else:
            data = rep.value
            data.pop("time", None)
            if kind == "time_only_rel":
                data.clear()
                data["time"] = t + arg
            else:
                data["time"] = t + arg if kind == "time_rel" else arg
        return rep


class TimerPolicy:
    """Real-time runs: replies are delivered by virtual timers (step durations), never by the controller."""

    def choose(self, ctx, quiescent):
        return None

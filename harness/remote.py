"""Fake-stream remote transport: the shipped ``RemoteProxy`` + ``mosaik_api_v3.Channel`` over
a hand-fed ``asyncio.StreamReader`` and a capturing fake writer.

This exercises the genuine remote code path of mosaik (JSON framing, request/reply matching,
``_handle_remote_requests`` for call-backs, ``EndOfRequests``, connection loss) on the
virtual loop without sockets or processes.  The simulator side is the same scripted
behaviour as for ``AsyncProxy``; ``step``/``get_data`` replies are parked until the schedule
controller releases them.  Faults: EOF / reset can be injected at any point.
"""
from __future__ import annotations

import asyncio
import copy
import json

from mosaik_api_v3.connection import Channel, encode, REQUEST, SUCCESS, FAILURE
from mosaik.proxies import RemoteProxy
from mosaik.simmanager import StarterCollection

from . import scn as S
from . import drive
from .drive import Pending, Reply, _de_event, _enc_next, _inp_list


class FakeWriter:
    def __init__(self, stub):
        self.stub = stub
        self.buf = b""
        self.closed = False

    def write(self, data: bytes):
        if self.closed or self.stub.dead:
            if self.stub.reset_on_write:
                raise ConnectionResetError("Connection lost")
            return
        self.buf += data
        while len(self.buf) >= 4:
            n = int.from_bytes(self.buf[:4], "big")
            if len(self.buf) < 4 + n:
                break
            msg = json.loads(self.buf[4:4 + n].decode())
            self.buf = self.buf[4 + n:]
            self.stub.on_message(msg)

    async def drain(self):
        if self.stub.dead and self.stub.reset_on_write:
            raise ConnectionResetError("Connection lost")

    def close(self):
        if not self.closed:
            self.closed = True
            self.stub.on_closed_by_mosaik()

    async def wait_closed(self):
        return None

    def is_closing(self):
        return self.closed

    def get_extra_info(self, name, default=None):
        return default


class RemoteStub:
    """The simulator side of one fake connection."""

    def __init__(self, ctx, sid):
        self.ctx = ctx
        self.sid = sid
        self.reader = asyncio.StreamReader()
        self.writer = FakeWriter(self)
        self.dead = False
        self.reset_on_write = False
        self.nent = 0
        self.requests = []  # every request mosaik sent: [func, args, kwargs]
        self.next_id = 1000
        self.cb_waiting = {}  # msg id of a call-back -> continuation
        self.deferred = []  # SE / DE records waiting for the scheduler to receive the reply
        ctx.stubs[sid] = self

    # ---- mosaik -> simulator
    def on_message(self, msg):
        mtype, mid, content = msg
        if mtype != REQUEST:
            cont = self.cb_waiting.pop(mid, None)
            if cont:
                cont(mtype, content)
            return
        func, args, kwargs = content
        self.requests.append([func, copy.deepcopy(args), copy.deepcopy(kwargs)])
        ctx = self.ctx
        if func == "init":
            typ = S.sim_by_id(ctx.scn)[self.sid]["type"]
            meta = copy.deepcopy(ctx.behaviour.meta(self.sid, typ))
            simrec = S.sim_by_id(ctx.scn)[self.sid]
            if simrec.get("meta"):
                meta = copy.deepcopy(simrec["meta"])
            self.reply(mid, meta)
        elif func == "create":
            num, model = args
            ents = [{"eid": f"E{self.nent + i}" + (ctx.scn.get("eid_suffix") or ""), "type": model} for i in range(num)]
            self.nent += num
            self.reply(mid, ents)
        elif func == "setup_done":
            ctx.record({"k": "SETUP", "s": self.sid})
            plan = getattr(ctx.behaviour, "plan", None)
            if plan and plan["sid"] == self.sid and plan["req"] == "setup_done":
                ctx.record({"k": "FAULT", "s": self.sid, "kind": plan["kind"] + ("_outstanding" if plan["kind"] in ("eof", "reset") else ""), "req": "setup_done"})
                if plan["kind"] in ("eof", "reset"):
                    (self.eof if plan["kind"] == "eof" else self.reset)()
                    return
                self.reply(mid, None)
                self.eof()
                return
            self.reply(mid, None)
        elif func in ("step", "get_data"):
            ctx.nreq += 1
            if func == "step":
                ctx.nstep[self.sid] = ctx.nstep.get(self.sid, 0) + 1
                t, inputs = args[0], args[1]
                m = args[2] if len(args) > 2 else None
                ctx.steptime[self.sid] = t
                ctx.record({"k": "SB", "s": self.sid, "t": drive._enc_time(t), "m": drive._enc_time(m) if m is not None else -1, "inp": _inp_list(inputs)})
            else:
                ctx.record({"k": "DB", "s": self.sid})
            fut = asyncio.get_event_loop().create_future()
            p = Pending(func, self.sid, ctx.nstep.get(self.sid, 0), copy.deepcopy(tuple(args)), fut, ctx.nreq)
            fut.add_done_callback(lambda f, mid=mid, p=p: self._deliver(mid, p, f.result()))
            ctx.pending[self.sid] = p
        elif func == "stop":
            ctx.record({"k": "STOP", "s": self.sid})
            # a compliant remote simulator finalizes and closes its connection
            self.eof()
        else:
            self.reply(mid, None)

    def _deliver(self, mid, p, rep: Reply):
        ctx = self.ctx
        if self.dead:
            return
        calls = list(rep.calls)

        def finish():
            if rep.fault in ("eof", "reset"):
                ctx.record({"k": "FAULT", "s": self.sid, "kind": rep.fault + "_outstanding", "req": p.kind})
                (self.eof if rep.fault == "eof" else self.reset)()
                return
            if rep.exc is not None:
                ctx.record({"k": "FAULT", "s": self.sid, "kind": "remote_exception", "req": p.kind})
                self.fail(mid, rep.exc)
                return
            res = rep.value
            # the reply becomes visible to the scheduler when RemoteProxy.send() returns in the simulator's own process,
            # not when the simulator writes it: the SE / DE record is made there (RecordingRemoteProxy), the linearization point
            if p.kind == "step":
                nk, n = _enc_next(res)
                self.deferred.append({"k": "SE", "s": self.sid, "nk": nk, "n": n, "nodata": self.sid not in ctx.has_out})
            else:
                self.deferred.append(_de_event(self.sid, res, ctx.steptime[self.sid]))
            self.reply(mid, res)
            if rep.fault == "eof_idle":
                # the simulator process dies after having answered (no request outstanding)
                ctx.record({"k": "FAULT", "s": self.sid, "kind": "eof_idle", "req": p.kind})
                self.eof()

        def next_call():
            if not calls:
                finish()
                return
            name, arg = calls.pop(0)
            cid = self.next_id
            self.next_id += 1
            ev = {"k": "CB", "s": self.sid, "f": name, "arg": drive._enc_cb(name, arg), "res": "ok"}

            def cont(mtype, content):
                if mtype == FAILURE:
                    ev["res"] = content[0] if content else "error"
                ctx.record(ev)
                next_call()

            self.cb_waiting[cid] = cont
            self.reader.feed_data(encode([REQUEST, cid, [name, [arg], {}]]))

        next_call()

    # ---- simulator -> mosaik
    def reply(self, mid, value):
        if not self.dead:
            self.reader.feed_data(encode([SUCCESS, mid, value]))

    def fail(self, mid, exc):
        if not self.dead:
            self.reader.feed_data(encode([FAILURE, mid, [type(exc).__name__, str(exc), "remote traceback"]]))

    def eof(self):
        if not self.dead:
            self.dead = True
            self.reader.feed_eof()

    def reset(self):
        """Connection reset: pending read fails, later writes raise."""
        if not self.dead:
            self.dead = True
            self.reset_on_write = True
            self.reader.set_exception(ConnectionResetError("Connection reset by peer"))

    def on_closed_by_mosaik(self):
        self.eof()


class RecordingRemoteProxy(RemoteProxy):
    """The shipped RemoteProxy; only adds the trace record at the point where a reply reaches the scheduler."""

    _stub = None

    async def send(self, request):
        try:
            return await super().send(request)
        finally:
            st = self._stub
            if st is not None and st.deferred:
                recs, st.deferred = st.deferred, []
                for ev in recs:
                    st.ctx.record(ev)


async def _starter(mosaik_config, sim_name, sim_config, mosaik_remote):
    ctx = drive.CTX
    stub = RemoteStub(ctx, sim_name)
    channel = Channel(stub.reader, stub.writer, name=sim_name)
    proxy = RecordingRemoteProxy(channel, mosaik_remote)
    proxy._stub = stub
    return proxy


StarterCollection()["vremote"] = _starter

"""Exploration of the real scheduler: many (scenario, behaviour, schedule) executions in
parallel worker processes; every execution is returned in the form RefTrace reads."""
from __future__ import annotations

import json
import multiprocessing as mp
import os
import random
from typing import Callable, Dict, List

from . import behave, families, monitor, scn as S


def _policy(spec, seed):
    kind = spec.get("kind", "random")
    if kind == "random":
        return behave.RandomPolicy(seed, early=spec.get("early", 0.3))
    if kind == "fifo":
        return behave.FifoPolicy()
    if kind == "timer":
        return behave.TimerPolicy()
    if kind == "lifo":
        return behave.LifoQuiescentPolicy()
    if kind == "replay":
        return behave.ReplayPolicy(spec["delivered"])
    if kind == "script":
        return behave.ScriptPolicy(spec["script"], eager=spec.get("eager", True))
    raise ValueError(kind)


def _behaviour(spec, seed):
    kind = spec.get("kind", "random")
    kw = {k: v for k, v in spec.items() if k not in ("kind", "seed", "table")}
    for k in ("tb_next", "ev_next", "future"):
        if k in kw:
            kw[k] = tuple(kw[k])
    if kind == "random":
        return behave.RandomBehaviour(spec.get("seed", seed), **kw)
    if kind == "rt":
        kw["durations"] = tuple(kw.get("durations", (0,)))
        return behave.RTBehaviour(spec.get("seed", seed), **kw)
    if kind == "faulty_rt":
        kw["durations"] = tuple(kw.get("durations", (0,)))
        fault = kw.pop("fault")
        return behave.FaultyRTBehaviour(spec.get("seed", seed), fault, **kw)
    if kind == "faultplan":
        plan = kw.pop("plan")
        return behave.FaultPlanBehaviour(spec.get("seed", seed), plan, kw.pop("agents", None), **kw)
    if kind == "faulty":
        fault = kw.pop("fault")
        return behave.FaultyBehaviour(spec.get("seed", seed), fault, **kw)
    if kind == "agent":
        agents = kw.pop("agents", None)
        illegal = kw.pop("illegal", ())
        return behave.AgentBehaviour(spec.get("seed", seed), agents, illegal, **kw)
    if kind == "model":
        return behave.ModelBehaviour({(a, b, c): v for a, b, c, v in spec["table"]})
    if kind == "table":
        table = {(a, b, c): v for a, b, c, v in spec["table"]}
        return behave.TableBehaviour(table, spec.get("seed", seed), **kw)
    raise ValueError(kind)


def run_case(case: dict):
    """case = {id, scn, behaviour: spec, policy: spec, seed, run_kw?}; returns a result record."""
    from . import drive

    seed = case.get("seed", 0)
    if case.get("suite"):
        return run_suite_case(case)
    beh = _behaviour(case.get("behaviour", {}), seed)
    pol = _policy(case.get("policy", {}), seed)
    ctx = drive.execute(case["scn"], beh, pol, run_kw=case.get("run_kw"), world_kw=case.get("world_kw"),
                        connect_order=case.get("connect_order"), internal_trace=bool(case.get("internal")))
    res = {
        "id": case["id"],
        "outcome": ctx.outcome,
        "delivered": [list(d) for d in ctx.delivered],
        "item": monitor.batch_item(case["id"], ctx.scn, ctx.trace),
        "deviations": getattr(pol, "deviations", 0),
        "pending_at_close": getattr(ctx.loop, "pending_at_close", None),
        "loop_closed": ctx.loop.is_closed(),
    }
    if case.get("keep_trace"):
        res["trace"] = ctx.trace
    if case.get("internal"):
        res["internal"] = ctx.internal
        if ctx.internal is None:
            from . import internal as _internal

            res["internal_unavailable"] = _internal.STATE.get("broken") or "not recorded"
        res["unscripted"] = getattr(beh, "unscripted", 0)
        if getattr(ctx, "wake", None) is not None and not getattr(ctx, "wake_truncated", False):
            res["wake"] = {"init": ctx.wake_init, "ev": ctx.wake}
        else:
            from . import wake as _wake

            res["wake"] = None
            res["wake_unavailable"] = "too long" if getattr(ctx, "wake_truncated", False) else (_wake.STATE.get("broken") or "not recorded")
    return res


def run_suite_case(case):
    """One of the repository's own scenarios (tests/scenarios) with its own simulators under a controlled schedule."""
    from . import suite

    su = case["suite"]
    pol = _policy(case.get("policy", {}), case.get("seed", 0))
    ctx, scn = suite.execute_suite(su["name"], su["path"], su["until"], pol, lazy=su.get("lazy", True), cache=su.get("cache", True))
    if scn is None:
        ctx.outcome = dict(ctx.outcome, phase="build")
        scn = ctx.scn
        if not ctx.trace or ctx.trace[-1]["k"] != "END":
            ctx.record({"k": "END", "r": ctx.outcome["r"], "cat": "other", "names": [], "closed": True, "pend": 0, "pendnames": []})
    case = dict(case, scn=scn)
    return {
        "id": case["id"], "outcome": ctx.outcome, "delivered": [list(d) for d in ctx.delivered],
        "item": monitor.batch_item(case["id"], scn, ctx.trace), "deviations": getattr(pol, "deviations", 0),
        "pending_at_close": getattr(ctx.loop, "pending_at_close", None), "loop_closed": ctx.loop.is_closed(), "scn": scn,
    }


def cases_suite(seed, nsched=1, lazy=(True,), cache=(True, False)):
    """Generator: seed selects the scenario (round robin) and the schedule seeds."""
    from . import suite

    files = suite.scenario_files()
    name, path, until = files[seed % len(files)]
    for lz in lazy:
        for ch in cache:
            for j in range(nsched):
                yield {"id": ["suite", name, lz, ch, seed, j], "suite": {"name": name, "path": path, "until": until, "lazy": lz, "cache": ch},
                       "seed": seed * 31 + j, "policy": {"kind": "random", "early": [0.0, 0.3, 0.7][(seed + j) % 3]}, "scn": {"sims": [], "conns": []}}


def _run_chunk(args):
    gen_name, gen_kw, lo, hi = args
    gen = GENERATORS[gen_name]
    out = []
    for seed in range(lo, hi):
        for case in gen(seed, **gen_kw):
            out.append((case, run_case(case)))
    return out


def cases_random(seed, fam=None, policy=None, behaviour=None, variants=True, lazy=(True, False), cache=(True, False), transport=None):
    rng = random.Random(f"scn|{seed}")
    scn = families.random_scenario(rng, **(fam or {}))
    if transport == "local_gen":
        # the shipped LocalProxy around simulators whose step() is a GENERATOR function (the in-process form of asynchronous
        # requests) - most of their steps finish without yielding any request
        scn = dict(scn, transport="local", sims=[dict(x, gen=True) for x in scn["sims"]])
    elif transport:
        scn = dict(scn, transport=transport)
    vs = list(families.variants(scn, lazy=lazy, cache=cache)) if variants else [scn]
    for v in vs:
        if (behaviour or {}).get("jump"):
            v = dict(v, until=v["until"] + behaviour["jump"])  # the run resumes at time `jump` after every simulator's first step
        yield {"id": [seed, v["lazy"], v["cache"]], "scn": v, "seed": seed,
               "behaviour": dict(behaviour or {}), "policy": dict(policy or {})}


GENERATORS: Dict[str, Callable] = {"random": cases_random, "suite": cases_suite}


def run_generated(gen_name, gen_kw, seeds, jobs=None, chunk=25):
    """Run generator over a range of seeds in parallel. Returns list of (case, result)."""
    jobs = jobs or min(16, os.cpu_count() or 4)
    lo, hi = seeds
    tasks = [(gen_name, gen_kw, a, min(a + chunk, hi)) for a in range(lo, hi, chunk)]
    if jobs == 1 or len(tasks) == 1:
        res = [_run_chunk(t) for t in tasks]
    else:
        with mp.get_context("fork").Pool(jobs) as pool:
            res = pool.map(_run_chunk, tasks)
    return [x for r in res for x in r]


def run_cases(cases, jobs=None, chunk=50):
    jobs = jobs or min(16, os.cpu_count() or 4)
    cases = list(cases)
    if jobs == 1 or len(cases) <= chunk:
        return [(c, run_case(c)) for c in cases]
    with mp.get_context("fork").Pool(jobs) as pool:
        res = pool.map(run_case, cases, chunksize=chunk)
    return list(zip(cases, res))


def replay_case(case, result):
    """A case that re-takes exactly the schedule of a finished execution."""
    c = json.loads(json.dumps(case))
    c["policy"] = {"kind": "replay", "delivered": result["delivered"]}
    return c


# ---------------------------------------------------------------------------
# stateless depth-first enumeration of reply schedules on the REAL scheduler


def dfs_schedules(case, max_early=1, limit=2000):
    """Enumerate all schedules of `case` (choice points: which outstanding reply is delivered at
    quiescence; up to `max_early` deliveries before quiescence) by re-execution with choice prefixes.
    Yields (case_with_choice_policy, result); `limit` bounds the number of executions."""
    from . import drive

    stack = [[]]
    n = 0
    seen = set()
    while stack and n < limit:
        prefix = stack.pop()
        pol = behave.ChoicePolicy(prefix, max_early=max_early)
        seed = case.get("seed", 0)
        beh = _behaviour(case.get("behaviour", {}), seed)
        ctx = drive.execute(case["scn"], beh, pol, run_kw=case.get("run_kw"), world_kw=case.get("world_kw"))
        n += 1
        c = dict(case, id=list(case["id"]) + ["dfs", n], policy={"kind": "replay", "delivered": [list(d) for d in ctx.delivered]})
        res = {"id": c["id"], "outcome": ctx.outcome, "delivered": [list(d) for d in ctx.delivered],
               "item": monitor.batch_item(c["id"], ctx.scn, ctx.trace), "deviations": 0,
               "pending_at_close": getattr(ctx.loop, "pending_at_close", None), "loop_closed": ctx.loop.is_closed()}
        key = json.dumps(res["item"]["ev"], sort_keys=True)
        if key not in seen:
            seen.add(key)
            yield c, res
        # expand every decision point beyond the prefix
        for pos in range(len(prefix), len(pol.options)):
            for alt in range(1, pol.options[pos]):
                stack.append(prefix + [0] * (pos - len(prefix)) + [alt])


def _dfs_worker(args):
    case, max_early, limit = args
    return list(dfs_schedules(case, max_early, limit))


def run_dfs(cases, max_early=1, limit=2000, jobs=None):
    """DFS over the schedules of several cases, one worker process per case."""
    jobs = jobs or min(16, os.cpu_count() or 4)
    cases = list(cases)
    if not cases:
        return []
    with mp.get_context("fork").Pool(min(jobs, len(cases))) as pool:
        res = pool.map(_dfs_worker, [(c, max_early, limit) for c in cases])
    return [x for r in res for x in r]

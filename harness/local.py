"""In-process transport: a plain ``mosaik_api_v3.Simulator`` behind the shipped ``LocalProxy``
(the transport of the repository's own test-suite).  Replies are computed synchronously from
the scripted behaviour, so the schedule is the FIFO one asyncio produces for in-process
simulators.  ``LocalGenSim`` has a generator-style ``step`` (call-backs into mosaik)."""
from __future__ import annotations

import copy

import mosaik_api_v3

from . import scn as S
from . import drive
from .drive import Pending, _de_event, _enc_next, _inp_list, _enc_cb


class LocalSim(mosaik_api_v3.Simulator):
    def __init__(self):
        super().__init__({"api_version": "3.0", "type": "time-based", "models": {}})
        self.ctx = drive.CTX
        self.sid = None
        self.nent = 0

    def init(self, sid, time_resolution=1.0, **kw):
        self.sid = sid
        typ = S.sim_by_id(self.ctx.scn)[sid]["type"]
        self.meta = copy.deepcopy(self.ctx.behaviour.meta(sid, typ))
        return self.meta

    def create(self, num, model, **params):
        ents = [{"eid": f"E{self.nent + i}" + (self.ctx.scn.get("eid_suffix") or ""), "type": model} for i in range(num)]
        self.nent += num
        return ents

    def setup_done(self):
        self.ctx.record({"k": "SETUP", "s": self.sid})
        plan = getattr(self.ctx.behaviour, "plan", None)
        if plan and plan["sid"] == self.sid and plan["req"] == "setup_done" and plan["kind"] == "raise":
            self.ctx.record({"k": "FAULT", "s": self.sid, "kind": "raise", "req": "setup_done"})
            from .behave import make_exc

            raise make_exc(plan.get("exc"), f"injected failure in {self.sid}.setup_done")

    def _begin(self, kind, args):
        ctx = self.ctx
        ctx.nreq += 1
        if kind == "step":
            ctx.nstep[self.sid] = ctx.nstep.get(self.sid, 0) + 1
            t, inputs, m = args
            ctx.steptime[self.sid] = t
            ev = {"k": "SB", "s": self.sid, "t": drive._enc_time(t), "m": drive._enc_time(m), "inp": _inp_list(inputs)}
            if ctx.rt is not None:
                ev["w"] = ctx.ticks()
            ctx.record(ev)
        else:
            ctx.record({"k": "DB", "s": self.sid, "req": sorted([eid, sorted(a)] for eid, a in args[0].items())})
        p = Pending(kind, self.sid, ctx.nstep.get(self.sid, 0), copy.deepcopy(tuple(args)), None, ctx.nreq)
        rep = ctx.behaviour.reply(ctx, p)
        ctx.last_reply[(self.sid, kind)] = rep.value
        ctx.delivered.append((ctx.ncall, self.sid, kind, False))
        if ctx.rt is not None and hasattr(ctx.behaviour, "duration"):
            # real-time runs: an in-process simulator computes SYNCHRONOUSLY - the (virtual) wall clock advances while
            # nothing else, not even the start of the other simulators' processes, can happen
            d = ctx.behaviour.duration(ctx, p)
            if d > 0:
                ctx.loop._vtime += d
        return rep

    def step(self, time, inputs, max_advance):
        rep = self._begin("step", (time, inputs, max_advance))
        if rep.exc is not None:
            self.ctx.record({"k": "FAULT", "s": self.sid, "kind": "raise", "req": "step"})
            raise rep.exc
        nk, n = _enc_next(rep.value)
        self.ctx.record({"k": "SE", "s": self.sid, "nk": nk, "n": n, "nodata": self.sid not in self.ctx.has_out})
        return rep.value

    def get_data(self, outputs):
        rep = self._begin("get_data", (outputs,))
        if rep.exc is not None:
            self.ctx.record({"k": "FAULT", "s": self.sid, "kind": "raise", "req": "get_data"})
            raise rep.exc
        self.ctx.record(_de_event(self.sid, rep.value, self.ctx.steptime[self.sid]))
        if S.sim_by_id(self.ctx.scn)[self.sid].get("reuse"):
            # a simulator that keeps ONE output dictionary, updates it in place in every step and returns it
            # (a common way to write get_data); mosaik receives the same objects again and again
            out = self.__dict__.setdefault("_out", {})
            new = rep.value
            for key in [k for k in out if k not in new]:
                del out[key]
            for key, val in new.items():
                if isinstance(val, dict):
                    d = out.setdefault(key, {})
                    for a in [a for a in d if a not in val]:
                        del d[a]
                    d.update(val)
                else:
                    # scalars (the optional output 'time') are only written when they CHANGE - as a simulator does that keeps
                    # "the time I announced" in a variable and updates its reply when it announces a new one
                    shadow = self.__dict__.setdefault("_shadow", {})
                    if key not in shadow or shadow[key] != val:
                        out[key] = val
                        shadow[key] = val
            for key in [k for k in self.__dict__.get("_shadow", {}) if k not in new]:
                del self._shadow[key]
            return out
        return copy.deepcopy(rep.value)

    def finalize(self):
        self.ctx.record({"k": "STOP", "s": self.sid})
        slow = S.sim_by_id(self.ctx.scn)[self.sid].get("slow_finalize")
        if slow:
            # an in-process simulator whose finalize() takes (virtual) wall-clock time: writing result files, closing a data base
            self.ctx.loop._vtime += float(slow)


class LocalGenSim(LocalSim):
    """Generator-style step(): yields the call-backs (set_data / get_data) to mosaik."""

    async def _flagged(self, name, arg):
        if name == "set_event":
            self.ctx.in_set_event = arg
        self.ctx.in_async_call = self.sid  # (a request mosaik passes on to another simulator meanwhile is made on this one's behalf)
        try:
            return await getattr(self.mosaik, name)(arg)
        finally:
            self.ctx.in_set_event = None
            self.ctx.in_async_call = None

    def step(self, time, inputs, max_advance):
        from mosaik.exceptions import ScenarioError, SimulationError

        rep = self._begin("step", (time, inputs, max_advance))
        for name, arg in rep.calls:
            ev = {"k": "CB", "s": self.sid, "f": name, "arg": _enc_cb(name, arg), "res": "ok"}
            try:
                yield self._flagged(name, arg)
            except ScenarioError:
                ev["res"] = "ScenarioError"
            except SimulationError:
                ev["res"] = "SimulationError"
            self.ctx.record(ev)
        nk, n = _enc_next(rep.value)
        self.ctx.record({"k": "SE", "s": self.sid, "nk": nk, "n": n, "nodata": self.sid not in self.ctx.has_out})
        return rep.value


class LocalSimV2(LocalSim):
    """The same simulator speaking API version 2.2 (no max_advance argument): mosaik wraps it in its V3ToV2Adapter."""

    def init(self, sid, time_resolution=1.0, **kw):
        meta = super().init(sid, time_resolution=time_resolution, **kw)
        meta["api_version"] = "2.2"
        return meta

    def step(self, time, inputs):  # noqa: D102  (old signature)
        return LocalSim.step(self, time, inputs, -1)


"""Plain in-process simulator stubs for C15 (NOT subclasses of mosaik_api_v3.Simulator: the base
class would fill in api_version and type).  The meta they return and a log of the calls they
receive are module globals set by the recorder."""
CONFIG = {"meta": None, "fail": None}  # fail = [index of the step call that raises (1-based), exception class name]
LOG = []
EXC = {"ValueError": ValueError, "RuntimeError": RuntimeError, "KeyError": KeyError, "TypeError": TypeError}


def _maybe_fail():
    f = CONFIG.get("fail")
    if f and sum(1 for x in LOG if x[0] == "step") == f[0]:
        raise EXC[f[1]]("injected failure of the simulator's step")


class _Base:
    def create(self, num, model, **params):
        LOG.append(["create", [num, model], params])
        return [{"eid": f"E{i}", "type": model} for i in range(num)]

    def setup_done(self):
        LOG.append(["setup_done", [], {}])

    def get_data(self, outputs):
        LOG.append(["get_data", [outputs], {}])
        return {eid: {a: 1 for a in attrs} for eid, attrs in outputs.items()}

    def finalize(self):
        LOG.append(["finalize", [], {}])

    # extra methods (meta["extra_methods"]); two of the names are parts of the name of a request that old versions do not get
    def setup(self, *a, **k):
        LOG.append(["setup", list(a), k])
        return ["setup", list(a), k]

    def done(self, *a, **k):
        LOG.append(["done", list(a), k])
        return ["done", list(a), k]

    def foo(self, *a, **k):
        LOG.append(["foo", list(a), k])
        return ["foo", list(a), k]


class V3Sig(_Base):
    def init(self, sid, time_resolution=1.0, **params):
        LOG.append(["init", [sid], dict(params, time_resolution=time_resolution, __got_time_resolution__=True)])
        return CONFIG["meta"]

    def step(self, time, inputs, max_advance):
        LOG.append(["step", [time, inputs, max_advance], {}])
        _maybe_fail()
        return time + 1


class V3SigDefault(_Base):
    """v3 signatures, but tolerant of being called like a v2 simulator."""

    def init(self, sid, time_resolution="absent", **params):
        LOG.append(["init", [sid], dict(params, __got_time_resolution__=time_resolution != "absent")])
        return CONFIG["meta"]

    def step(self, time, inputs, max_advance="absent"):
        LOG.append(["step", [time, inputs] + ([max_advance] if max_advance != "absent" else []), {}])
        _maybe_fail()
        return time + 1


class V3SigKwOnly(V3SigDefault):
    """v3 signatures with time_resolution KEYWORD-ONLY and no **kwargs (mosaik passes it by keyword)."""

    def init(self, sid, *, time_resolution="absent"):
        LOG.append(["init", [sid], {"__got_time_resolution__": time_resolution != "absent"}])
        return CONFIG["meta"]


class V3SigKwargs(V3SigDefault):
    """v3 signatures where init takes everything beyond the id as **kwargs."""

    def init(self, sid, **params):
        LOG.append(["init", [sid], dict({k: v for k, v in params.items() if k != "time_resolution"}, __got_time_resolution__="time_resolution" in params)])
        return CONFIG["meta"]


class OldSig(_Base):
    def init(self, sid, step_size=1):
        LOG.append(["init", [sid], {"step_size": step_size, "__got_time_resolution__": False}])
        return CONFIG["meta"]

    def step(self, time, inputs):
        LOG.append(["step", [time, inputs], {}])
        _maybe_fail()
        return time + 1


class OldSigOfV3(V3SigDefault):
    """Old signatures in a class DERIVED from one with v3 signatures (the parent class is started earlier in the same process)."""

    def init(self, sid, step_size=1):
        LOG.append(["init", [sid], {"step_size": step_size, "__got_time_resolution__": False}])
        return CONFIG["meta"]

    def step(self, time, inputs):
        LOG.append(["step", [time, inputs], {}])
        _maybe_fail()
        return time + 1


class V3SigOfOld(OldSig):
    """v3 signatures in a class DERIVED from one with old signatures."""

    def init(self, sid, time_resolution="absent", **params):
        LOG.append(["init", [sid], dict(params, __got_time_resolution__=time_resolution != "absent")])
        return CONFIG["meta"]

    def step(self, time, inputs, max_advance="absent"):
        LOG.append(["step", [time, inputs] + ([max_advance] if max_advance != "absent" else []), {}])
        _maybe_fail()
        return time + 1

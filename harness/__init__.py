"""Conformance harness binding the TLA+ specification in /verif/spec to mosaik (/repo).

Everything here runs the *real* mosaik scheduler from /repo's working tree on a
deterministic virtual-time asyncio loop; nothing in /repo is replaced.
"""
import os
import sys
import warnings

REPO = os.environ.get("MOSAIK_REPO", "/repo")
if not sys.path or sys.path[0] != REPO:
    # first, so that `mosaik` AND the repository's `tests` package (suite scenarios / simulators) come from this tree
    sys.path.insert(0, REPO)

VERIF = os.path.dirname(os.path.dirname(os.path.abspath(__file__)))


def quiet():
    """Silence mosaik's logging / warnings (they are not part of any verdict here)."""
    from loguru import logger

    import logging

    logger.remove()
    # a sink that discards everything but keeps loguru ACTIVE at every level: with no handler at all loguru returns before it
    # formats a message, and code that only runs when a message is formatted (as under the default stderr handler) would never run
    logger.add(lambda message: None, level=0)
    warnings.simplefilter("ignore")
    # "Task was destroyed but it is pending" is recorded as data (VLoop.pending_at_close), not printed
    logging.getLogger("asyncio").setLevel(logging.CRITICAL + 1)

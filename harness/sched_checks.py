"""Checks of the scheduling properties: explore the real scheduler, judge every
execution with the TLA+ reference semantics, report the clauses of one property."""
from __future__ import annotations

import collections
import json
import time

from . import checklib, explore, monitor


def judge_results(prop, pairs, prefixes=None):
    """pairs: [(case, result)].  Returns (findings, stats)."""
    prefixes = tuple(prefixes or (prop + "_",))
    # scenarios of the families are legal: one that cannot be BUILT (World / start / connect raising) is reported - as drift, the
    # scheduling clauses have nothing to judge - instead of being dropped silently (a ScenarioError of connect() is C11's subject)
    unbuilt = [(c, r) for c, r in pairs if r["outcome"].get("phase") == "build"]
    for c, r in unbuilt[:3]:
        print(f"DRIFT scenario could not be built case={json.dumps(c.get('id'))[:100]} error={r['outcome']['r']}: {r['outcome']['msg'][:120]} (not a verdict)")
    pairs = [(c, r) for c, r in pairs if r["outcome"].get("phase") != "build"]
    items = [r["item"] for _, r in pairs]
    verdicts, info = monitor.judge(items)
    findings = []
    stats = collections.Counter()
    clause_count = collections.Counter()
    hashes = set()
    nontrivial = set()
    proto_drift = []
    unjudged = []
    info_drift = []
    ninfo = collections.Counter()
    for (case, res), v in zip(pairs, verdicts):
        for e in res["item"]["ev"]:
            if e["k"] == "CB" and e.get("f") in ("get_progress", "get_related_entities"):
                ninfo[e["f"] + (":" + e["shape"] if "shape" in e else "")] += 1
        hsh = checklib.trace_hash(res["item"])
        hashes.add(hsh)
        if sum(1 for e in res["item"]["ev"] if e["k"] == "SB") >= 2:
            nontrivial.add(hsh)
        stats["outcome:" + res["outcome"]["r"]] += 1
        if v["dead"]:
            stats["bookkeeping_stopped"] += 1
            if any(e["k"] == "END" and e.get("cat") == "loop_guard" for e in res["item"]["ev"]):
                # the loop guard ended a run whose steps the reference could no longer explain (a C02 clause fired first): whether the
                # guard was right is not judged then - say so instead of staying silent (C09 reads this counter)
                stats["loop_guard_not_judged_after_bookkeeping_stopped"] += 1
                unjudged.append(case.get("id"))
        seen = set()
        for l, clause in v["viol"]:
            clause_count[clause] += 1
            # request-protocol layer (PR_*): drift between the code and the specification's picture of a run, never a verdict.
            # (After a FAILED run the processes of the other simulators are not cancelled - open finding D12 - and may still send
            # a request to a simulator that shutdown() has already stopped: that one is the known consequence of D12.)
            if clause.startswith("PR_") and not (clause == "PR_request_after_stop" and res["outcome"]["r"] != "ok"):
                proto_drift.append({"clause": clause, "case": case.get("id"), "event": l})
            # information-request layer (IR_*: get_progress / get_related_entities): not a listed property either - drift
            if clause.startswith("IR_"):
                info_drift.append({"clause": clause, "case": case.get("id"), "event": l, "detail": (v["detail"] or "")[:400] if v["viol"][0] == (l, clause) else ""})
            if clause.startswith(prefixes) and clause not in seen:
                seen.add(clause)
                detail = v["detail"] if v["viol"] and v["viol"][0] == (l, clause) else None
                findings.append(checklib.Finding(prop, clause, case, res, l, detail))
    stats["events"] = sum(len(i["ev"]) for i in items)
    for d in proto_drift[:3]:
        print(f"DRIFT request protocol clause={d['clause']} case={json.dumps(d['case'])[:120]} event={d['event']} (code and specification MosaikRef/ProtoStep differ; not a verdict)")
    if prop == "C09" and unjudged:
        print(f"DRIFT loop guard fired in {len(unjudged)} execution(s) whose steps the reference could not explain any more (clauses of C01 / C02 fired first, e.g. "
              f"case={json.dumps(unjudged[0])[:100]}); the guard's verdict is not judged there - see the checks of those properties (not a verdict)")
    for d in info_drift[:3]:
        print(f"DRIFT information requests clause={d['clause']} case={json.dumps(d['case'])[:120]} event={d['event']} {d['detail'][:200]} (code and specification MosaikRef/RefInfo differ; not a verdict)")
    return findings, {
        "info_requests": dict(ninfo),
        "info_drift": info_drift[:10],
        "info_drift_count": len(info_drift),
        "executions": len(items),
        "distinct_traces": len(hashes),
        "distinct_nontrivial": len(nontrivial),
        "stats": dict(stats),
        "all_clauses_seen": dict(clause_count),
        "scenarios_not_built": len(unbuilt),
        "protocol_drift": proto_drift[:10],
        "protocol_drift_count": len(proto_drift),
        "monitor": info,
    }


def sample_of(pairs, n=2):
    out = []
    for case, res in pairs[:n]:
        out.append({"case": case, "delivered": res["delivered"][:12], "trace_excerpt": res["item"]["ev"][:8], "outcome": res["outcome"]})
    return out

"""Scenario description shared by the TLA+ side and the harness (single source of truth).

A scenario is a JSON-able dict::

    {"sims":  [{"sid": "A", "type": "hybrid", "gpath": [1, 2], "initev": false}, ...],
     "conns": [{"src": "A", "dst": "B", "sa": "p", "da": "i", "se": 0, "de": 0,
                "shift": 0, "weak": false, "init": "", "async": false}, ...],
     "until": 3, "lazy": true, "cache": true, "maxloop": 3,
     "order": ["B", "A"]}          # optional start order

``gpath`` is the path of group ids from the root group (siblings have different
ids).  Attribute names carry their role: ``p*`` persistent output, ``e*`` event
(non-persistent) output, ``i*`` non-trigger input, ``ti*`` trigger input.
``init`` is the token of the declared initial data ("" = none).  A connection
with ``sa == ""`` is a pure ``async_requests`` connection (no attribute pair).
"""
from __future__ import annotations

import copy

TYPES = ("time-based", "event-based", "hybrid")
OUTS = {"time-based": ["p", "p2"], "event-based": ["e", "e2"], "hybrid": ["p", "p2", "e", "e2"]}
INS = {"time-based": ["i", "i2"], "event-based": ["ti", "ti2"], "hybrid": ["i", "i2", "ti", "ti2"]}


def is_pers(attr: str) -> bool:
    return attr.startswith("p")


def is_trig(attr: str) -> bool:
    return attr.startswith("ti")


def meta_for(typ: str) -> dict:
    model = {"public": True, "params": [], "attrs": INS[typ] + OUTS[typ]}
    if typ == "hybrid":
        model["trigger"] = [a for a in INS[typ] if is_trig(a)]
        model["non-persistent"] = [a for a in OUTS[typ] if not is_pers(a)]
    return {"api_version": "3.0", "type": typ, "models": {"M": model}}


def init_token(conn) -> str:
    # initial data is a function of (source simulator, source attribute) - the cache stores it per source ENTITY, so the entity is part of it
    se = conn.get("se", "E0")
    se = se if isinstance(se, str) else f"E{se}"
    return f"init.{conn['src']}.{conn['sa']}" if se == "E0" else f"init.{conn['src']}.{conn['sa']}@{se}"


def normalize(scn: dict) -> dict:
    """Fill in defaults and the derived fields the TLA+ modules read."""
    s = copy.deepcopy(scn)
    s.setdefault("lazy", True)
    s.setdefault("cache", True)
    s.setdefault("maxloop", 100)
    s.setdefault("until", 3)
    for sim in s["sims"]:
        sim.setdefault("gpath", [])
        sim.setdefault("initev", False)
        sim.setdefault("initevs", [])  # further initial events: World.set_initial_event(sid, t) for each t, in this order, after the one at 0
        sim.setdefault("nent", 1)
    for c in s["conns"]:
        c.setdefault("sa", "")
        c.setdefault("da", "")
        for f in ("se", "de"):
            v = c.get(f, 0)
            c[f] = v if isinstance(v, str) else f"E{v}"
        c.setdefault("shift", 0)
        c.setdefault("weak", False)
        c.setdefault("async", False)
        if c.get("init") is True:
            c["init"] = init_token(c)
        elif not c.get("init"):
            c["init"] = ""
        c["data"] = c["sa"] != ""
        # (scenarios extracted from foreign code give the roles explicitly; our own families encode them in the names)
        if "pers" not in c or not c.get("roles_given"):
            c["pers"] = is_pers(c["sa"]) if c["sa"] else False
            c["trig"] = is_trig(c["da"]) if c["da"] else False
    return s


def sim_by_id(scn: dict) -> dict:
    return {s["sid"]: s for s in scn["sims"]}


def tla_scn(scn: dict) -> dict:
    """The projection of a scenario that goes into TLC batches."""
    s = normalize(scn)
    return {
        "sims": [
            {"sid": x["sid"], "type": x["type"], "gpath": list(x["gpath"]), "initev": bool(x["initev"]), "initevs": [int(t) for t in x.get("initevs") or []]}
            for x in s["sims"]
        ],
        "conns": [
            {k: c[k] for k in ("src", "dst", "sa", "da", "se", "de", "shift", "weak", "init", "async", "data", "pers", "trig")}
            for c in s["conns"]
        ],
        "until": s["until"],
        "lazy": bool(s["lazy"]),
        "cache": bool(s["cache"]),
        "maxloop": s["maxloop"],
        "debug": bool(s.get("debug")),
        "info": bool(scn.get("info_requests")),  # the scripted simulators issue get_progress / get_related_entities (IR_* clauses)
        # real-time runs: K = trace ticks per simulation step (always 1024, see drive.Ctx), strict flag, instant = all step durations zero
        "rt": ({"on": True, "K": 1024, "strict": bool(s["rt"].get("strict")),
                "instant": bool(s["rt"].get("instant"))} if s.get("rt") else {"on": False, "K": 0, "strict": False, "instant": False}),
    }


def common_depth(ga, gb) -> int:
    """Depth (1 = root) of the deepest group containing both group paths."""
    k = 0
    while k < len(ga) and k < len(gb) and ga[k] == gb[k]:
        k += 1
    return k + 1


def can_weak(ga, gb) -> bool:
    return common_depth(ga, gb) >= 2


ODD_SIDS = {"Sa": "S%a", "Sb": "S-b", "Sc": "S c", "Sd": "S{d}", "Se": "S~e", "Sf": "S%%f", "Sg": "S+g", "Sh": "S$h", "Si": "S#i", "Sj": "S@j",
            "Sk": "S&k", "Sl": "S=l"}


def rename_sids(scn: dict, mapping=None) -> dict:
    """The same scenario with user-chosen simulator ids that contain unusual (legal) characters: %, blanks, braces, ...
    (no dots - mosaik itself separates simulator id and entity id by the first dot - and nothing JSON/TLA+ strings cannot hold)."""
    m = mapping or ODD_SIDS
    s = copy.deepcopy(scn)
    for sim in s["sims"]:
        sim["sid"] = m.get(sim["sid"], sim["sid"])
    for c in s["conns"]:
        old_src = c["src"]
        c["src"], c["dst"] = m.get(c["src"], c["src"]), m.get(c["dst"], c["dst"])
        if isinstance(c.get("init"), str) and c["init"].startswith(f"init.{old_src}."):
            c["init"] = f"init.{c['src']}." + c["init"][len(f"init.{old_src}."):]
    if s.get("order"):
        s["order"] = [m.get(x, x) for x in s["order"]]
    return s


"""Scenario families (generators shared by the checks).

All generators are deterministic functions of a ``random.Random``.
The verdict families respect the interface decisions of DESIGN.md §6/C03
(one source attribute per destination slot, initial data exactly where
``connect`` requires it, ...).
"""
from __future__ import annotations

import itertools
import random

from . import scn as S

GPATHS = [[], [1], [1, 2], [3], [1, 4]]
SIDS = ["Sa", "Sb", "Sc", "Sd", "Se", "Sf", "Sg", "Sh", "Si", "Sj", "Sk", "Sl"]


def random_scenario(rng: random.Random, nsims=(2, 4), nconns=(1, 5), until=(2, 4), groups=True, siblings=True,
                    weak=0.4, p_async=0.0, shifts=(0, 0, 0, 1, 1, 2), selfloops=0.1, maxloop=3,
                    parallel_delays=True, types=S.TYPES, p_two_entities=0.0, p_shift_weak=0.15, p_extra_init=0.0):
    n = rng.randint(*nsims)
    pool = [[]]
    if groups:
        pool = [[], [], [1], [1, 2]] + ([[3], [1, 4]] if siblings else [])
    sims = [{"sid": SIDS[i], "type": rng.choice(types), "gpath": list(rng.choice(pool)), "initev": False} for i in range(n)]
    if p_two_entities:
        for s in sims:
            if rng.random() < p_two_entities:
                s["nent"] = 2
    conns = []
    for _ in range(rng.randint(*nconns)):
        if rng.random() < selfloops:
            a = b = rng.randrange(n)
        else:
            a, b = rng.sample(range(n), 2)
        sa_, sb_ = sims[a], sims[b]
        canw = S.can_weak(sa_["gpath"], sb_["gpath"])
        sa = rng.choice(S.OUTS[sa_["type"]][:3:2] if sa_["type"] == "hybrid" else S.OUTS[sa_["type"]][:1])
        da = rng.choice(S.INS[sb_["type"]][:3:2] if sb_["type"] == "hybrid" else S.INS[sb_["type"]][:1])
        shift = rng.choice(shifts)
        wk = canw and rng.random() < weak
        if wk:
            # a connection may be weak AND time-shifted (docs/tutorials use both flags together): both delays add up
            shift = rng.choice((1, 1, 2)) if rng.random() < p_shift_weak else 0
        if a == b and not wk and shift == 0:
            shift = 1
        if not S.is_pers(sa) and not S.is_trig(da):
            # event output into a non-trigger input: "not recommended"; keep it rare and unshifted
            if shift or wk or rng.random() < 0.7:
                continue
        init = (shift > 0 or wk) and not S.is_trig(da)
        if not init and p_extra_init and S.is_pers(sa) and not S.is_trig(da) and rng.random() < p_extra_init:
            init = True  # initial data on an ORDINARY connection ("not needed", but declared: it holds until the first value is due)
        if not init and p_extra_init and not S.is_pers(sa) and S.is_trig(da) and shift > 0 and rng.random() < p_extra_init:
            init = True  # ... and on a time-shifted EVENT connection into a trigger input (mosaik only warns that it is not needed)
        se = f"E{rng.randrange(sa_.get('nent', 1))}"
        de = f"E{rng.randrange(sb_.get('nent', 1))}"
        # one source attribute of a source entity per destination slot
        if any(c["src"] == sa_["sid"] and c["dst"] == sb_["sid"] and c["da"] == da and c["sa"] != sa and c.get("se", "E0") == se
               and c.get("de", "E0") == de for c in conns):
            continue
        if not parallel_delays and any(
            c["src"] == sa_["sid"] and c["dst"] == sb_["sid"] and c["da"] == da and c["sa"] == sa and c.get("se", "E0") == se
            and c.get("de", "E0") == de for c in conns
        ):
            continue
        # initial data is a function of (source simulator, source attribute): all-or-nothing per source attribute is
        # not required, but the token is the same
        c = {"src": sa_["sid"], "dst": sb_["sid"], "sa": sa, "da": da, "se": se, "de": de, "shift": shift, "weak": wk, "init": init,
             "async": a != b and rng.random() < p_async}
        conns.append(c)
    for s in sims:
        if s["type"] == "event-based" and rng.random() < 0.5:
            s["initev"] = True
        elif s["type"] == "hybrid" and rng.random() < 0.1:
            s["initev"] = True  # set_initial_event(sid, 0) on a hybrid simulator: still exactly one step at time 0
    scn = {"sims": sims, "conns": conns, "until": rng.randint(*until), "maxloop": maxloop}
    # (drawn last, so that the scenarios themselves do not depend on these options)
    if rng.random() < 0.3:
        scn["multipair"] = True  # connections between the same entities with the same options are made by ONE connect() call
    if rng.random() < 0.05:
        scn["until"] = 1
    if rng.random() < 0.1:
        scn["time_resolution"] = rng.choice([0.5, 2.0, 0.001])  # World(time_resolution=...): passed to init(), no effect on scheduling
    if rng.random() < 0.3:
        # start order (= creation order of the SimRunner objects, which id-hashed sets inside mosaik iterate by)
        order = [x["sid"] for x in sims]
        rng.shuffle(order)
        scn["order"] = order
    if not scn.get("multipair") and rng.random() < 0.12:
        scn["connect_one"] = True  # single-pair connections are made with World.connect_one instead of World.connect
    if rng.random() < 0.12 and not any(c.get("async") for c in conns):
        # entity ids with unusual characters (dots, %, blanks, ...): the simulators' create() returns them with this suffix
        sfx = rng.choice([".x", "%d", " e", "-1", "/a", ".0.1"])
        scn["eid_suffix"] = sfx
        for c in conns:
            c["se"], c["de"] = c["se"] + sfx, c["de"] + sfx
    scn = S.normalize(scn)
    if rng.random() < 0.12:
        scn = S.rename_sids(scn)  # simulator ids with unusual characters
    for x in scn["sims"]:
        # hybrid simulators whose participating entities are children (model K, usual roles) of entities of a model M that gives the
        # same attribute names the opposite roles
        if x["type"] == "hybrid" and rng.random() < 0.15 and not x.get("any_inputs") and not x.get("meta"):
            x["children"] = "swapped_parent"
        elif x["type"] == "hybrid" and rng.random() < 0.15 and not x.get("any_inputs") and not x.get("meta"):
            x["infer_triggers"] = True  # (see drive.AsyncProxy.init)
    if rng.random() < 0.2:
        scn["world_positional"] = True  # World(...) constructed with positional arguments (see drive.build_world)
    if rng.random() < 0.12:
        scn["query_before_run"] = True  # World.get_data() on the sources before run() (see drive.execute)
    if any(x["gpath"] for x in scn["sims"]) and rng.random() < 0.2:
        scn["group_cm"] = rng.choice(["upfront", "decorator"])  # (see drive.build_world)
    if rng.random() < 0.2:
        # attributes of the SAME name on both sides (every model of the harness lists its outputs among its attributes): such a
        # connection is written connect(a, b, 'p') / connect_one(a, b, 'p') - the destination name is omitted
        types = {x["sid"]: x["type"] for x in scn["sims"]}
        for c in scn["conns"]:
            if (c["data"] and c["src"] != c["dst"] and types[c["dst"]] != "event-based" and S.is_pers(c["sa"]) and not c["trig"] and rng.random() < 0.5
                    and not any(o is not c and (o["src"], o["se"], o["sa"], o["dst"], o["de"], o["da"]) == (c["src"], c["se"], c["sa"], c["dst"], c["de"], c["sa"])
                                for o in scn["conns"])):
                c["da"], c["trig"] = c["sa"], False
    # (drawn after everything else, so that the scenarios of a seed are the ones they were before this option existed)
    if rng.random() < 0.25:
        # the scripted simulators also issue the information requests get_progress / get_related_entities during their steps
        # (clauses IR_* of MosaikRef; see drive._info_calls)
        scn["info_requests"] = rng.randint(1, 10**6)
    # initial events at LATER times, possibly several for one simulator: World.set_initial_event(sid, t) announces a step at t - next to
    # the step at 0 that a hybrid simulator (or an event-based one with an initial event at 0) performs anyway, and next to each other
    for x in scn["sims"]:
        if x["type"] != "time-based" and rng.random() < 0.15:
            x["initevs"] = sorted({rng.randint(0, scn["until"] + 1) for _ in range(rng.randint(1, 2))}, reverse=rng.random() < 0.5)
    return scn


def variants(scn, lazy=(True, False), cache=(True, False)):
    for lz in lazy:
        for ch in cache:
            v = dict(scn)
            v["lazy"], v["cache"] = lz, ch
            yield v

"""Shared plumbing of the checks: verdict collection, known findings, replay files,
evidence files, exit codes.

Exit codes: 0 = property held on everything explored (possibly with KNOWN-FINDING lines),
1 = violation (a line ``VIOLATION property=<id> replay=<path>`` was printed),
2 = machinery failure (a bug of /verif, never a verdict).
"""
from __future__ import annotations

import hashlib
import json
import os
import sys
import time
import traceback

from . import VERIF

# (overridable so that tools/try_patch.py can run the checks against a mutated copy without touching the committed evidence)
EVIDENCE_DIR = os.environ.get("VERIF_EVIDENCE_DIR") or os.path.join(VERIF, "evidence")
REPLAY_DIR = os.environ.get("VERIF_REPLAY_DIR") or os.path.join(VERIF, "replays")
KNOWN = os.path.join(VERIF, "known_findings.jsonl")

LEVEL = "model_checking"


def tier_and_seed(argv_tier=None):
    tier = argv_tier or os.environ.get("VERIF_TIER") or "quick"
    if tier not in ("quick", "thorough"):
        tier = "quick"
    try:
        seed = int(os.environ.get("VERIF_SEED", "0"))
    except ValueError:
        seed = 0
    return tier, seed


def load_known():
    out = []
    if os.path.exists(KNOWN):
        for line in open(KNOWN):
            line = line.strip()
            if line and not line.startswith("#"):
                out.append(json.loads(line))
    return out


class Finding:
    """One violated clause on one explored case."""

    def __init__(self, prop, clause, case=None, result=None, l=None, detail=None, extra=None):
        self.prop = prop
        self.clause = clause
        self.case = case
        self.result = result
        self.l = l
        self.detail = detail
        self.extra = extra or {}

    def key(self):
        return self.clause


def match_known(f: Finding, known):
    """An open known finding of the same property whose signature matches this violation."""
    from . import signatures

    for k in known:
        if k.get("status") != "open" or k.get("property") != f.prop:
            continue
        if k.get("clause") and k["clause"] != f.clause:
            continue
        sig = k.get("signature") or {}
        pred = getattr(signatures, sig.get("name", "clause_only"), None)
        if pred is None:
            continue
        try:
            if pred(f, **sig.get("params", {})):
                return k
        except Exception:  # noqa: BLE001  a broken signature never hides a violation
            continue
    return None


def write_replay(f: Finding):
    os.makedirs(REPLAY_DIR, exist_ok=True)
    body = {
        "property": f.prop,
        "clause": f.clause,
        "event": f.l,
        "detail": f.detail,
        "case": f.case,
        "delivered": (f.result or {}).get("delivered"),
        "outcome": (f.result or {}).get("outcome"),
        "trace": ((f.result or {}).get("item") or {}).get("ev"),
        "extra": f.extra,
    }
    txt = json.dumps(body, indent=1, sort_keys=True, default=str)
    h = hashlib.sha1(txt.encode()).hexdigest()[:12]
    path = os.path.join(REPLAY_DIR, f"{f.prop}-{f.clause}-{h}.json")
    with open(path, "w") as fh:
        fh.write(txt)
    return path


def conclude(prop, tier, seed, findings, coverage, t0, assumptions=(), max_report=5):
    """Print the verdict lines, write the evidence file, return the exit code."""
    known = load_known()
    max_report = int(os.environ.get("VERIF_MAX_REPORT", max_report))
    viol, kf = [], {}
    for f in findings:
        k = match_known(f, known)
        if k is not None:
            kf.setdefault(k["id"], [k, 0])[1] += 1
        else:
            viol.append(f)
    for kid, (k, n) in sorted(kf.items()):
        print(f"KNOWN-FINDING: property={prop} {kid} {k['what']} ({n} occurrence(s) in this run)")
    reported = {}
    for f in viol:
        reported.setdefault(f.clause, []).append(f)
    for clause, fs in sorted(reported.items()):
        for f in fs[:max_report]:
            path = write_replay(f)
            print(f"VIOLATION property={prop} replay={path}")
            print(f"  clause={clause} case={json.dumps((f.case or {}).get('id'))} event={f.l} detail={(f.detail or '')[:300]}")
        if len(fs) > max_report:
            print(f"  ... {len(fs) - max_report} more violation(s) of clause {clause}")
    cov = dict(coverage)
    cov["known_findings_hit"] = {kid: n for kid, (k, n) in kf.items()}
    cov["violations_by_clause"] = {c: len(fs) for c, fs in reported.items()}
    write_evidence(prop, tier, seed, cov, time.time() - t0, len(viol), assumptions)
    print(f"{prop} [{tier}] seed={seed}: {'VIOLATED' if viol else 'holds on everything explored'}; "
          f"{summary_line(cov)}; {time.time() - t0:.1f}s")
    return 1 if viol else 0


def summary_line(cov):
    keys = ("states", "transitions", "traces_validated_against_impl", "evaluations", "distinct_nontrivial")
    return ", ".join(f"{k}={cov[k]}" for k in keys if k in cov)


def write_evidence(prop, tier, seed, coverage, wall, nviol, assumptions=(), level=LEVEL):
    os.makedirs(EVIDENCE_DIR, exist_ok=True)
    ev = {
        "property_id": prop,
        "tier": tier,
        "seed": seed,
        "level": level,
        "coverage": coverage,
        "assumptions": list(assumptions),
        "wall_s": round(wall, 2),
        "violations": nviol,
    }
    path = os.path.join(EVIDENCE_DIR, f"{prop}.json")
    tmp = path + ".tmp"
    with open(tmp, "w") as fh:
        json.dump(ev, fh, indent=1, sort_keys=True, default=str)
    os.replace(tmp, path)
    return path


def main_guard(fn):
    """Run a check; anything unexpected is a machinery failure (exit 2), never a verdict."""
    try:
        rc = fn()
    except SystemExit:
        raise
    except BaseException:  # noqa: BLE001
        traceback.print_exc()
        print("MACHINERY-FAILURE (exit 2): this is a defect of /verif, not a verdict about mosaik")
        sys.exit(2)
    sys.exit(rc)


def trace_hash(item) -> str:
    return hashlib.sha1(json.dumps(item["ev"], sort_keys=True).encode()).hexdigest()
